import sys
from crosshair.tracers import NoTracing
from crosshair.core import IgnoreAttempt, realize
from statemachine import StateMachine, State
import drv, sym
from p6 import NAMES, OPS, render, ev
DEPTH = int(sys.argv[1])

def gen(ctx, d):
    k = ctx.choose(6 if d > 0 else 2)
    if k == 0: return ("name", ctx.choose(3))
    if k == 1: return ("const", ctx.choose(3))
    if k == 2: return ("not", gen(ctx, d-1))
    if k == 3: return ("and", gen(ctx, d-1), gen(ctx, d-1))
    if k == 4: return ("or", gen(ctx, d-1), gen(ctx, d-1))
    if k == 5: return ("cmp", ctx.choose(6), gen(ctx, 0), gen(ctx, 0))

def check() -> bool:
    ctx = sym.Ctx()
    tree = gen(ctx, DEPTH)
    st = ctx.choose(2)
    if tree[0] in ("const", "name"): raise IgnoreAttempt
    with NoTracing():
        src = render(tree, st)
        log = []
        ns = {}
        for i, nm in enumerate(NAMES):
            def getter(self, i=i):
                log.append(i); return self._vals[i]
            ns[nm] = property(getter)
        a = State(initial=True); b = State(); c = State()
        ns["_vals"] = [0,0,0]
        ns.update(a=a, b=b, c=c, go=a.to(b, cond=src) | a.to(c), back=b.to(a) | c.to(a))
        cls = type(StateMachine)("E", (StateMachine,), ns)
        sm = cls(); log.clear()
    vals = [ctx.int("v") for _ in range(3)]
    sm._vals = vals
    sm.send("go")
    got = sm.current_state.id == "b"
    got_log = list(log)
    elog = []
    exp = bool(ev(tree, vals, elog))
    ok = got == exp and got_log == elog
    if not ok:
        with NoTracing(): print("FAIL", src, [ (l, realize(v)) for l, v in ctx.drawn])
    return ok

if __name__ == "__main__":
    import time
    t=time.time()
    r = drv.run(check, timeout=float(sys.argv[2]))
    print({k:(v if k not in('fail','exc') else v[:3]) for k,v in r.items()}, round(time.time()-t,1))
