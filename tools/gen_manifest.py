#!/usr/bin/env python3
"""Regenerate /verif/MANIFEST.json from the table below (single source of truth for the interface)."""

import json
import os

HERE = os.path.dirname(os.path.dirname(os.path.abspath(__file__)))

SX = "bounded symbolic execution of the real library code (CrossHair engine + z3), path tree explored to exhaustion, counterexamples replayed concretely"

NOTE = ("Trusts CrossHair's opcode-level model of CPython and z3; scaffolding (class/instance construction where it is not the "
        "subject) is native; the reference oracle is written from the documentation; bounds and tolerances: evidence.coverage.bounds "
        "and assumptions.")


def sx(extra, text, ref):
    return (SX + "; " + extra, text, NOTE, ref)


CHECKS = {
    "C01": sx(
        "differential against a reference transition-selection oracle",
        "Every path of send() through the real engines is explored for the bounded machine families with symbolic guard values and "
        "validator faults; the solver shows no feasible path is left (exhaustive within the bounds in the evidence).",
        "DESIGN.md section 4 C01",
    ),
    "C02": sx(
        "observed callback log judged by a documentation-derived trace acceptor",
        "All populations of the callback groups (bounded), providers, transition kinds and engines are explored symbolically; order, exactly-once, "
        "injected state view and event scoping are checked on every path.",
        "DESIGN.md section 4 C02",
    ),
    "C03": sx(
        "nested-send placement enumerated by the solver, trace acceptor with queue semantics, stack depth compared along a symbolic-length chain",
        "Every placement of up to 2 nested sends at any callback invocation (bounded template), rtc on/off, both engines, with symbolic results.",
        "DESIGN.md section 4 C03",
    ),
    "C04": sx(
        "fault position is a solver variable; trace acceptor + follow-up calls + white-box queue/lock frame",
        "Every crash point of the bounded scenarios (raise at any callback invocation, refused queued event, repeated failures) is explored; the "
        "state rule, exception propagation, dropped queue and usability are checked on every path.",
        "DESIGN.md section 4 C04",
    ),
    "C05": sx(
        "relational: an all-plain twin and a coroutine twin draw one memoised script (faults, nested sends, symbolic guard/return values); each is judged by the trace acceptor and the twins are compared directly",
        "Twins of the C03/C04 scenarios with every callback, or one single callback, a coroutine function that yields to the loop; sync facade and in-loop drivers.",
        "DESIGN.md section 4 C05",
    ),
    "C06": (
        "AST -> IR -> z3 bounded model checking (QF_BV) of the real dispatch functions over all schedules, models replayed on real threads / asyncio tasks through gated queue and lock; plus symbolic execution of the real code with other senders' sends injected at every shared operation (solver-enumerated injection points)",
        "The dispatch loop's current source is lowered to a transition system on every run; reachability of overlap / duplicate or misordered processing / "
        "stranded event / held lock is decided by z3 for every schedule of 2-3 senders within the unrolling bound (unwinding assertion discharged); every "
        "model is confirmed on the real engine before it is reported.",
        "Trusted: the lowering (validated against the real engine's shared-operation traces on single-sender scenarios each run), atomicity of one "
        "queue/lock operation under the GIL, the opaque model of _trigger (begin / nested put / yields / end-or-raise). Bounds: evidence.coverage.bounds.",
        "DESIGN.md section 4 C06, 3.4, 10b",
    ),
    "C07": sx(
        "every bounded signature x call shape bound on symbolic argument objects and compared, by identity, with a reference binding",
        "All legal signatures up to the stated size and all call shapes are bound through the real adapter (and end-to-end through send) with "
        "symbolic argument values; a path covers all values, the tree of signatures is exhausted.",
        "DESIGN.md section 4 C07",
    ),
    "C08": sx(
        "differential against Python's own eval() over the generated expression grammar with symbolic operand values",
        "Every expression of the bounded grammar in every spelling is parsed by the real parser under the tracer and evaluated for all operand "
        "values (symbolic); value and read order must equal Python's; invalid strings must be rejected at instantiation.",
        "DESIGN.md section 4 C08",
    ),
    "C09": sx(
        "the class statement itself executed symbolically (state flags and strict_states are z3 booleans); verdict compared with an independent transitive-closure oracle",
        "All small directed multigraphs (bounded) x all flag assignments: the metaclass checks fork on symbolic flags and every path's accept/warn/raise "
        "verdict must equal the oracle's.",
        "DESIGN.md section 4 C09",
    ),
    "C10": sx(
        "model field, current_state, current_state_value and is_active compared with a value table after every operation of a solver-enumerated script; setter driven with a symbolic int",
        "All bounded combinations of value family, model shape, start_value, pre-stored state and operation script are executed symbolically.",
        "DESIGN.md section 4 C10",
    ),
    "C11": sx(
        "construction, (re)activation, history and re-construction scripts enumerated by the solver; callback log judged by the trace acceptor",
        "Every bounded combination of stored state, start_value, engine/rtc, re-activations, history prefix and restart is executed symbolically.",
        "DESIGN.md section 4 C11",
    ),
    "C12": sx(
        "provider distribution, attachment time and repetition enumerated by the solver; callback log judged by the trace acceptor over the providers attached so far; per-provider guard values symbolic",
        "Every bounded distribution of four features over machine/model/constructor listener/late listener x attachment schedule, with a silent second instance.",
        "DESIGN.md section 4 C12",
    ),
    "C13": sx(
        "calling styles compared relationally on symbolic guards/arguments; send(name) over the finite attribute-name pool; event matching over a symbolic string (z3 string theory)",
        "Every pre-state x event x calling style twin, every attribute name of the machine as an event name, and Transition.match for all strings.",
        "DESIGN.md section 4 C13",
    ),
    "C15": sx(
        "relational: each rendering and the reference rendering are stepped on the same symbolic guard values from every state on every event, with the abstract machine as third voice",
        "13 declaration styles of one abstract machine: structure, events, allowed events and one symbolic step from every state on every event must coincide.",
        "DESIGN.md section 4 C15",
    ),
    "C16": sx(
        "A's trace under solver-enumerated disturber scripts compared with the table of A alone (symbolic guard/argument)",
        "All bounded disturber scripts (unrelated classes with A's names, subclasses, other instances, models of the same class) interleaved with A's events.",
        "DESIGN.md section 4 C16",
    ),
    "C17": sx(
        "copy.deepcopy / pickle executed under the tracer; original and clone driven on solver-enumerated diverging suffixes with symbolic guards and compared with the transition table and with each other's side effects",
        "Both copy mechanisms x option combinations x history prefixes x interleaved suffixes (bounded), incl. an async machine copied before activation.",
        "DESIGN.md section 4 C17",
    ),
    "C18": sx(
        "graph object produced by the real generator (and pydot) under the tracer compared with the graph computed from the abstract machine; the solver enumerates subject and current state (little symbolic content: weakest fit, stated)",
        "Nodes, initial pseudo-edge, one edge per external transition with events and guards, internal transitions in labels, final borders and the current-state highlight.",
        "DESIGN.md section 4 C18",
    ),
    "C14": sx(
        "result rule judged on symbolic return values incl. awkward kinds",
        "All bounded populations of before/on callbacks x transition kinds x engines with symbolic return values; 0->None, 1->unwrapped, else list.",
        "DESIGN.md section 4 C14",
    ),
}

NOT_YET = "check not built yet in this round (planned: symbolic execution harness per DESIGN.md section 4)"


def main():
    props = [json.loads(line) for line in open(os.path.join(HERE, "properties.jsonl"))]
    checks = []
    na = []
    for p in props:
        pid = p["id"]
        if pid in CHECKS:
            tech, text, note, ref = CHECKS[pid]
            checks.append(
                {
                    "property_id": pid,
                    "quick_cmd": f"./vf check {pid} --tier quick",
                    "thorough_cmd": f"./vf check {pid} --tier thorough",
                    "evidence_file": f"evidence/{pid}.json",
                    "replay_cmd_template": "./vf replay {path}",
                    "engine": "bmc" if pid == "C06" else "symx",
                    "level_claimed": {"category": "model_checking", "text": text, "design_ref": ref},
                    "level_note": note,
                    "technique": tech,
                }
            )
        else:
            na.append({"property_id": pid, "reason": NA.get(pid, NOT_YET)})
    manifest = {
        "version": 1,
        "setup_cmd": "./vf setup",
        "hooks": {
            "guard": "PYSM_VERIF",
            "enable": "no hooks are needed: checks import /repo's working tree unmodified (PYSM_VERIF is reserved and unused)",
            "baseline_off_cmd": "./vf baseline-off",
            "source_commits": [],
            "add_only": True,
        },
        "engines": [
            {
                "name": "bmc",
                "path": "vfw/bmc.py",
                "serves_properties": [c["property_id"] for c in checks if c["engine"] == "bmc"],
                "kind_free_text": "AST->IR lowering of the dispatch loop + QF_BV bounded model checking over schedules (vfw/bmc_ts.py) + gated replay on real threads/tasks (harness/c06.py)",
            },
            {
                "name": "symx",
                "path": "vfw/symx.py",
                "serves_properties": [c["property_id"] for c in checks if c["engine"] == "symx"],
                "kind_free_text": "path-exhausting symbolic execution of the real Python code on CrossHair's StateSpace/tracer with z3; harness + reference oracle per property; concrete replay of every counterexample",
            },
        ],
        "checks": checks,
        "not_applicable": na,
        "notes": "Exit codes: 0 held on everything explored (KNOWN-FINDING lines for listed defects), 1 VIOLATION (reproduced concretely), 2 harness error/inconclusive. Evidence states bounds, path counts, exhaustion, z3 queries/time, functions executed symbolically.",
    }
    with open(os.path.join(HERE, "MANIFEST.json"), "w") as f:
        json.dump(manifest, f, indent=1)
        f.write("\n")


NA = {}

if __name__ == "__main__":
    main()
