"""Scripted scenarios on rendered machines + the reference *trace acceptor* (the oracle of C02-C05, C14).

The implementation is driven through the public API while every generated callback appends records to one
global log and asks a `Script` what to do (return value, raise, nested send, number of awaits).  The acceptor
is written from the documentation (actions.md ordering, processing_model.md, guards.md, async.md), not from the
engine: it replays the *observed* log against the abstract machine and rejects the first record that the
documented semantics does not allow.  Being log-driven makes it order-adaptive: inside one callback group any
order is accepted and what was observed is then used to predict what follows (queue contents, results).

Log records (tuples):
  ("cb", idx, provider, name, info)   callback began; info = event/state/source/target ids, current state read
  ("send", idx, ev) / ("sent", idx, ev, ret) / ("sendexc", idx, ev, exc)   nested send issued by callback idx
  ("raise", idx)                      callback idx raises Boom(idx)
  ("end", idx, value)                 callback idx returned `value`
Side effects always come right after the begin record; awaits (async renderings) come after the side effects.
"""

from __future__ import annotations

import sys

from .ctx import Mismatch
from .machines import candidates, entry_names, expected_group, initial_enter_expected, initial_state

UNSET = object()
ANY = object()  # outcome value that is not checked (e.g. a constructor's return)


RETURNED_EXC = ValueError("an exception instance handed back as a plain return value")


class Boom(RuntimeError):  # a RuntimeError on purpose: the sync facade must not mistake a user's RuntimeError for 'a loop is already running'
    def __init__(self, idx):
        super().__init__(f"Boom({idx})")
        self.idx = idx


class Abort(BaseException):
    """A failure that is not an Exception (what asyncio.CancelledError / KeyboardInterrupt look like to the engine)."""

    def __init__(self, idx):
        super().__init__(f"Abort({idx})")
        self.idx = idx


def lib_depth(root):
    """Number of frames on the current stack that execute library code."""
    f = sys._getframe(1)
    n = 0
    while f is not None:
        if f.f_code.co_filename.startswith(root):
            n += 1
        f = f.f_back
    return n


class Script:
    """Behaviour of the generated callbacks; decisions are drawn lazily, in invocation order."""

    def __init__(self, ctx, am, budget=0, actions=("send", "raise"), send_events=("go",), values=None,
                 yields=0, guard_kind="bool", where=None, measure_depth=False, lib_root=None, policy=None):
        self.ctx = ctx
        self.am = am
        self.budget = budget
        self.actions = list(actions)
        self.send_events = list(send_events)
        self.values = values  # None | "int" | "kinds"
        self.yields = yields
        self.guard_kind = guard_kind
        self.where = where  # optional predicate(info) -> may act here
        self.log = []
        self.n = 0
        self.occ = {}
        self.sm = None
        self.muted = False
        self.guard_names = {n for t in am["transitions"] for g in list(t.get("cond", [])) + list(t.get("unless", [])) for n in entry_names(g)}
        self.validator_names = {g for t in am["transitions"] for g in t.get("validators", [])}
        self.result_names = None
        self.measure_depth = measure_depth
        self.lib_root = lib_root
        self.unawaited = []
        self.call_index = 0
        self.raise_base_exception = False
        self.yields_by_name = {}
        self.coros = []
        self.policy = policy
        self._first_trigger = None
        self._cur_trigger = None
        self._value_count = 0
        self.special = None
        self.special_positions = 4
        self.special_used = False
        self.taken = []
        self.custom = None  # optional hook(script, idx, info) -> ("send", ev) | ("raise",) | None, overrides draws

    # -- called from generated callbacks (machines.World protocol) --------------------------------
    def _begin(self, provider, name, args, kwargs):
        with self.ctx.notracing():  # bookkeeping on concrete objects only; nothing symbolic is touched here
            ev = kwargs.get("event")
            info = {
                "event": None if ev is None else str.__str__(ev),
                "state": getattr(kwargs.get("state"), "id", None),
                "source": getattr(kwargs.get("source"), "id", None),
                "target": getattr(kwargs.get("target"), "id", None),
            }
            ed = kwargs.get("event_data")
            self._cur_trigger = getattr(ed, "trigger_data", None)
            if ed is not None:
                info["ed"] = (
                    getattr(getattr(ed, "state", None), "id", None),
                    getattr(getattr(ed, "source", None), "id", None),
                    getattr(getattr(ed, "target", None), "id", None),
                    None if getattr(ed, "event", None) is None else str.__str__(ed.event),
                    getattr(ed, "machine", None) is kwargs.get("machine"),
                    getattr(ed, "transition", None) is kwargs.get("transition"),
                )
            if self._first_trigger is None and info["event"] != "__initial__":
                self._first_trigger = self._cur_trigger
            machine = self.sm if self.sm is not None else kwargs.get("machine")
            try:
                info["cur"] = machine.current_state.id
            except Exception:
                info["cur"] = None
            if self.measure_depth:
                info["depth"] = lib_depth(self.lib_root)
            info["args"] = args
            info["kwargs"] = kwargs
            idx = self.n
            self.n += 1
            key = (provider, name, info["event"])
            occ = self.occ.get(key, 0)
            self.occ[key] = occ + 1
            label = f"{provider}.{name}@{info['event']}#{self.call_index}.{occ}" if self.call_index else f"{provider}.{name}@{info['event']}#{occ}"
            self.log.append(("cb", idx, provider, name, info))
        act = self._decide_action(idx, provider, name, info, label, guard=name in self.guard_names)
        if act is not None and act[0] == "raise":
            self.log.append(("raise", idx))
            raise (Abort if self.raise_base_exception else Boom)(idx)
        self._machine = machine
        return idx, label, act

    def _send_failed(self, idx, ev, e):
        if isinstance(e, Boom):
            self.log.append(("sendexc", idx, ev, ("Boom", e.idx)))
        else:
            self.log.append(("sendexc", idx, ev, ("TNA", str(e.event), getattr(e.state, "id", None))))

    def _end(self, idx, name, label):
        value = self._value(name, label)
        if name in self.guard_names:
            self.log.append(("end", idx, True if value else False))
        else:
            self.log.append(("end", idx, value))
        return value

    def cb(self, provider, name, obj, args, kwargs):
        if self.muted:
            return None
        idx, label, act = self._begin(provider, name, args, kwargs)
        if act is not None and act[0] == "send":
            ev = act[1]
            self.log.append(("send", idx, ev))
            try:
                sm = self._machine
                ret = sm.send(ev)
            except (Boom, sm.TransitionNotAllowed) as e:
                self._send_failed(idx, ev, e)
                raise
            if hasattr(ret, "__await__"):
                # plain callback on a machine that runs the async engine inside a running loop: nothing can
                # await this; the event itself is already queued.  Recorded so that harnesses can judge it.
                ret.close()
                self.unawaited.append((idx, ev))
                ret = None
            self.log.append(("sent", idx, ev, ret))
        return self._end(idx, name, label)

    async def acb(self, provider, name, obj, args, kwargs):
        import asyncio

        if self.muted:
            return None
        idx, label, act = self._begin(provider, name, args, kwargs)
        if act is not None and act[0] == "send":
            ev = act[1]
            self.log.append(("send", idx, ev))
            try:
                sm = self._machine
                ret = sm.send(ev)
                if hasattr(ret, "__await__"):
                    ret = await ret
            except (Boom, sm.TransitionNotAllowed) as e:
                self._send_failed(idx, ev, e)
                raise
            self.log.append(("sent", idx, ev, ret))
        for _ in range(self.yields_by_name.get(name, self.yields)):
            await asyncio.sleep(0)
        return self._end(idx, name, label)

    def _decide_action(self, idx, provider, name, info, label, guard=False):
        if guard and "raise" not in self.actions:
            return None
        if self.custom is not None:
            r = self.custom(self, idx, provider, name, info)
            if r is not NotImplemented:
                return r
        if self.budget <= 0 or (self.where is not None and not self.where(provider, name, info)):
            return None
        opts = [None]
        for a in self.actions:
            if a == "send":
                if not guard and not (self.policy == "send-then-raise" and self.taken):
                    opts += [("send", e) for e in self.send_events]
            else:
                opts.append(("raise",))
        if len(opts) == 1:
            return None
        d = opts[self.ctx.choose(len(opts), f"act:{label}")]
        if d is not None:
            self.budget -= 1
            self.taken.append(d[0])
        return d

    def _value(self, name, label):
        ctx = self.ctx
        if name in self.guard_names:
            v = ctx.sym_bool(f"g:{label}") if self.guard_kind == "bool" else ctx.sym_int(f"g:{label}", -2, 2)
            return v
        if self.values == "first_none":
            # every callback of the first event processed in this top-level call returns nothing
            if self._first_trigger is None or self._cur_trigger is self._first_trigger:
                return None
            return ctx.sym_int(f"v:{label}", -3, 3)
        if self.values == "int":
            return ctx.sym_int(f"v:{label}", -3, 3)
        if self.values == "special":
            # one solver-chosen invocation returns a value of a solver-chosen awkward kind, all others symbolic ints
            k = self._value_count
            self._value_count += 1
            if self.special is None:
                pos = ctx.choose(self.special_positions + 1, "special.pos")
                kind = ctx.choose(7, "special.kind") if pos < self.special_positions else 0
                self.special = (pos, kind)
            if k == self.special[0]:
                self.special_used = True
                return [None, [], [ctx.sym_int(f"v:{label}", 0, 1)], (), {}, "", RETURNED_EXC][self.special[1]]
            return ctx.sym_int(f"v:{label}", -3, 3)
        if self.values == "kinds":
            k = ctx.choose(7, f"vk:{label}")
            if k == 0:
                return ctx.sym_int(f"v:{label}", -3, 3)
            return [None, [], [ctx.sym_int(f"v:{label}", 0, 1)], (), {}, ""][k - 1]
        return None


# ======================================================================================= acceptor
class _Unread(Exception):
    pass


class Reject(Exception):
    def __init__(self, kind, msg):
        super().__init__(f"{kind}: {msg}")
        self.kind = kind
        self.msg = msg


def brief(rec):
    if rec is None:
        return "<end of log>"
    if rec[0] == "cb":
        i = rec[4]
        return f"cb#{rec[1]} {rec[2]}.{rec[3]} ev={i['event']} state={i['state']} src={i['source']} tgt={i['target']} cur={i['cur']}"
    return repr(rec[:4])


def brief_log(log, limit=60):
    return [brief(r) for r in log[:limit]]


class Acceptor:
    def __init__(self, am, log, rtc=True, allow=False, is_async=False, start_id=None, check_cur=True):
        self.am = am
        self.log = log
        self.pos = 0
        self.rtc = rtc
        self.allow = allow
        self.is_async = is_async
        self.cur = None
        self.start_id = start_id or initial_state(am)["id"]
        self.check_cur = check_cur
        self.orphans = set()
        self.orphan_pending = set()  # (provider, name, event) of group-mates that may still start after a failed gather
        self.fired = []  # (event, transition index in am, src, tgt)
        self.depths = []
        self.nested_happened = False
        # diagnosis only: judge the conjunction over these providers and every other provider of the name on its own
        self.unless_anyfalsy_group = None
        self.forced_reads = {}  # diagnosis only: (provider, name) -> value assumed although never logged

    # ------------------------------------------------------------------ log access
    def peek(self):
        while self.pos < len(self.log):
            r = self.log[self.pos]
            if r[0] in ("end", "sent", "raise", "send", "sendexc") and r[1] in self.orphans:
                self.pos += 1  # left-overs of callbacks abandoned by a failed gather (tolerance, see DESIGN)
                continue
            if r[0] == "cb" and (r[2], r[3], r[4]["event"]) in self.orphan_pending:
                self.orphan_pending.discard((r[2], r[3], r[4]["event"]))
                self.orphans.add(r[1])
                self.pos += 1
                continue
            return r
        return None

    def take(self):
        r = self.peek()
        if r is not None:
            self.pos += 1
        return r

    # ------------------------------------------------------------------ top level
    def call(self, cur, events, outcome):
        """One top-level public call that puts `events` (usually one) on the queue in this order.

        outcome: ("ret", value) | ("exc", desc) with desc ("Boom", idx) | ("TNA", event, state) | ("other", repr)
        Returns the state the machine must be in afterwards.
        """
        self.cur = cur
        abort = None
        first = UNSET
        if self.rtc:
            queue = list(events)
            while queue:
                ev = queue.pop(0)
                r = self.process(ev, queue)
                if r[0] == "abort":
                    abort = r[1]
                    break
                if first is UNSET and ev != "__initial__":
                    first = r[1]
        else:
            assert len(events) == 1
            r = self.process(events[0], None)
            if r[0] == "abort":
                abort = r[1]
            else:
                first = r[1]
        rest = self.peek()
        if rest is not None:
            raise Reject("unexpected-callback-after-completion", f"log continues with {brief(rest)}")
        if abort is not None:
            if outcome[0] != "exc" or tuple(outcome[1]) != tuple(abort):
                raise Reject("wrong-exception", f"expected {abort} to reach the caller, observed {outcome!r}")
        else:
            exp = None if first is UNSET else first
            if outcome[0] != "ret":
                raise Reject("unexpected-exception", f"expected return {exp!r}, observed {outcome!r}")
            if outcome[1] is not ANY and not same_value(outcome[1], exp):
                raise Reject("wrong-result", f"expected {exp!r}, observed {outcome[1]!r}")
        return self.cur

    # ------------------------------------------------------------------ one event
    def process(self, ev, queue):
        am = self.am
        if ev == "__initial__":
            tgt = self.start_id
            self.cur = tgt  # the state is assigned before the enter callbacks run
            r = self.group(initial_enter_expected(am, tgt), "__initial__", tgt, "", tgt, queue, "enter")
            if r[0] == "abort":
                return r
            return ("ok", None)
        src = self.cur
        for t in candidates(am, src, ev):
            r = self.group(expected_group(am, t, ev, "validators"), ev, src, src, t["tgt"], queue, "validators")
            if r[0] == "abort":
                return r
            r = self.guards(t, ev, src, queue)
            if r[0] == "abort":
                return r
            if not r[1]:
                continue
            results = []
            by_group = {"before": [], "on": []}
            tgt = t["tgt"]
            for phase in ("before", "exit", "on"):
                r = self.group(expected_group(am, t, ev, phase), ev, src, src, tgt, queue, phase)
                if r[0] == "abort":
                    return r
                if phase in ("before", "on"):
                    results += r[1]
                    by_group[phase] = list(r[1])
            self.cur = tgt
            for phase in ("enter", "after"):
                r = self.group(expected_group(am, t, ev, phase), ev, tgt, src, tgt, queue, phase)
                if r[0] == "abort":
                    return r
            self.fired.append((ev, am["transitions"].index(t), src, tgt))
            if len(results) == 0:
                return ("ok", None)
            if len(results) == 1:
                return ("ok", results[0])
            return ("ok", GroupedResult(by_group["before"], by_group["on"]))
        if self.allow:
            return ("ok", None)
        return ("abort", ("TNA", ev, src))

    # ------------------------------------------------------------------ guards of one candidate
    def guards(self, t, ev, src, queue):
        exp = expected_group(self.am, t, ev, "cond")
        reads = {k: v for k, v in self.forced_reads.items() if k in exp}
        open_ = {}
        while True:
            rec = self.peek()
            if rec is None:
                break
            if rec[0] == "cb" and (rec[2], rec[3]) in exp and (rec[2], rec[3]) not in reads:
                self.take()
                self.check_info(rec, ev, src, src, t["tgt"], "cond")
                reads[(rec[2], rec[3])] = None
                open_[rec[1]] = (rec[2], rec[3])
            elif rec[0] == "end" and rec[1] in open_:
                self.take()
                reads[open_.pop(rec[1])] = bool(rec[2])
            elif rec[0] == "raise" and rec[1] in open_:
                self.take()
                self.orphans |= set(open_) - {rec[1]}
                return ("abort", ("Boom", rec[1]))
            else:
                break
        if open_:
            raise Reject("guard-not-completed", f"guard(s) {sorted(open_.values())} of {t['src']}->{t['tgt']} still running when {brief(self.peek())}")
        status = "pass"
        for entry, expected in [(c, True) for c in t.get("cond", [])] + [(u, False) for u in t.get("unless", [])]:
            val = self.entry_value(entry, exp, reads, expected)
            if val is UNSET:
                status = "unknown" if status == "pass" else status
            elif val != expected:
                status = "fail"
                break
        if status == "unknown":
            # the implementation went on without reading every guard although none of those read failed
            nxt = self.peek()
            raise Reject("guards-not-all-read", f"{t['src']}->{t['tgt']} on {ev}: read {reads}, then {brief(nxt)}")
        return ("ok", status == "pass")

    def name_value(self, name, exp, reads, separate_late):
        """Value of a guard name: the conjunction over its providers (UNSET if not decidable from what was read)."""
        provs = [p for p, n in exp if n == name]
        group = [p for p in provs if self.unless_anyfalsy_group is None or p in self.unless_anyfalsy_group or not separate_late]
        vals = [reads.get((p, name), UNSET) for p in group]
        if any(v is False for v in vals):
            return False
        if all(v is True for v in vals):
            return True
        return UNSET

    def entry_value(self, entry, exp, reads, expected):
        names = entry_names(entry)
        if names == [entry]:
            v = self.name_value(entry, exp, reads, True)
            if expected is False and self.unless_anyfalsy_group is not None:
                # diagnosis mode: providers outside the group are judged on their own
                rest = [reads.get((p, entry), UNSET) for p, n in exp if n == entry and p not in self.unless_anyfalsy_group]
                if v is False:
                    if any(r is True for r in rest):
                        return True
                    if any(r is UNSET for r in rest):
                        return UNSET
                    return False
                return v
            return v

        import ast as _ast

        def kleene(node):
            """Three-valued evaluation (True / False / UNSET): an unread operand does not hide a deciding one."""
            if isinstance(node, _ast.BoolOp):
                vals = [kleene(v) for v in node.values]
                if isinstance(node.op, _ast.And):
                    if any(v is False for v in vals):
                        return False
                    return True if all(v is True for v in vals) else UNSET
                if any(v is True for v in vals):
                    return True
                return False if all(v is False for v in vals) else UNSET
            if isinstance(node, _ast.UnaryOp) and isinstance(node.op, _ast.Not):
                v = kleene(node.operand)
                return UNSET if v is UNSET else (not v)
            if isinstance(node, _ast.Name):
                return self.name_value(node.id, exp, reads, False)
            if isinstance(node, _ast.Constant):
                return bool(node.value)
            raise Reject("harness", f"guard expression {entry!r} is outside the acceptor's evaluator")

        return kleene(_ast.parse(entry, mode="eval").body)

    # ------------------------------------------------------------------ one callback group
    def check_info(self, rec, ev, view, src, tgt, phase):
        i = rec[4]
        if i["event"] != ev:
            raise Reject("wrong-event-injected", f"{brief(rec)} during {phase} of event {ev}")
        if i["state"] != view and not (ev == "__initial__" and phase == "enter" and i["state"] in (view, "")):
            raise Reject("wrong-state-injected", f"{brief(rec)}: `state` should be {view} in {phase}")
        if i["source"] != src or i["target"] != tgt:
            raise Reject("wrong-source-target-injected", f"{brief(rec)}: expected source={src} target={tgt}")
        ed = i.get("ed")
        if ed is not None:
            ok_state = ed[0] == i["state"] or (ev == "__initial__" and ed[0] in (view, ""))
            if not ok_state or ed[1] != src or ed[2] != tgt or ed[3] != ev or not ed[4] or not ed[5]:
                raise Reject("event_data-disagrees-with-injected-values", f"{brief(rec)}: event_data(state, source, target, event, same machine, same transition)={ed}")
        if self.check_cur and (self.rtc or not self.nested_happened) and i["cur"] != view:
            raise Reject("wrong-current-state-seen", f"{brief(rec)}: sm.current_state should be {view} in {phase}")
        if "depth" in i:
            self.depths.append((ev, phase, i["depth"]))

    def group(self, expected, ev, view, src, tgt, queue, phase):
        remaining = list(expected)
        open_ = {}
        values = []
        while remaining or open_:
            rec = self.peek()
            if rec is None:
                raise Reject(
                    "missing-callback", f"{phase} of {ev} ({src}->{tgt}): never ran {remaining or sorted(open_.values())}"
                )
            kind = rec[0]
            if kind == "cb":
                key = (rec[2], rec[3])
                if key not in remaining:
                    raise Reject(
                        "unexpected-callback", f"{brief(rec)} while {phase} of {ev} ({src}->{tgt}) still expects {remaining} / running {sorted(open_.values())}"
                    )
                if open_ and not self.is_async:
                    raise Reject("overlapping-callbacks", f"{brief(rec)} began before {sorted(open_.values())} ended")
                self.take()
                self.check_info(rec, ev, view, src, tgt, phase)
                remaining.remove(key)
                open_[rec[1]] = key
            elif kind == "send" and rec[1] in open_:
                self.take()
                r = self.nested_send(rec, queue)
                if r is not None:
                    self.orphans |= set(open_) - {rec[1]}
                    if self.is_async:
                        self.orphan_pending |= {(p, n, ev) for p, n in remaining}
                    return r
            elif kind == "end" and rec[1] in open_:
                self.take()
                values.append(rec[2])
                del open_[rec[1]]
            elif kind == "raise" and rec[1] in open_:
                self.take()
                self.orphans |= set(open_) - {rec[1]}
                if self.is_async:
                    self.orphan_pending |= {(p, n, ev) for p, n in remaining}
                return ("abort", ("Boom", rec[1]))
            else:
                raise Reject("unexpected-record", f"{brief(rec)} while {phase} of {ev} expects {remaining} / running {sorted(open_.values())}")
        return ("ok", values)

    def nested_send(self, rec, queue):
        idx, ev2 = rec[1], rec[2]
        if self.rtc:
            nxt = self.take()
            if nxt is None or nxt[0] != "sent" or nxt[1] != idx:
                raise Reject("nested-event-not-queued", f"after nested send({ev2}) by cb#{idx} the log continues with {brief(nxt)} (run-to-completion: it must only be queued)")
            if nxt[3] is not None:
                raise Reject("nested-send-result", f"nested send({ev2}) returned {nxt[3]!r}, expected None")
            queue.append(ev2)
            return None
        # non-RTC: depth-first, immediately
        self.nested_happened = True
        r = self.process(ev2, None)
        nxt = self.take()
        if r[0] == "abort":
            if nxt is None or nxt[0] != "sendexc" or nxt[1] != idx or tuple(nxt[3]) != tuple(r[1]):
                raise Reject("nested-failure-not-raised", f"nested send({ev2}) must raise {r[1]}, log has {brief(nxt)}")
            return r
        if nxt is None or nxt[0] != "sent" or nxt[1] != idx:
            raise Reject("nested-send-not-completed", f"after nested send({ev2}) log has {brief(nxt)}")
        if not same_value(nxt[3], r[1]):
            raise Reject("nested-send-result", f"nested send({ev2}) returned {nxt[3]!r}, expected its own result {r[1]!r}")
        return None


class GroupedResult:
    """Expected list result: the before values in any order, then the on values in any order (order inside a
    group is undocumented: the sync engine uses registration order, asyncio.gather argument order)."""

    def __init__(self, before, on):
        self.before = list(before)
        self.on = list(on)

    def __repr__(self):
        return f"before{self.before!r}+on{self.on!r}"


def _perm_equal(xs, ys):
    ys = list(ys)
    for x in xs:
        hit = None
        for i, y in enumerate(ys):
            if x is y:
                hit = i
                break
        if hit is None:
            for i, y in enumerate(ys):
                if same_value(x, y):
                    hit = i
                    break
        if hit is None:
            return False
        ys.pop(hit)
    return not ys


def same_value(a, b):
    """Equality that also distinguishes kinds ([] vs None vs 0 vs '' vs ()) and is safe on symbolic ints."""
    if isinstance(b, GroupedResult):
        a, b = b, a
    if isinstance(a, GroupedResult):
        if isinstance(b, GroupedResult):
            return _perm_equal(a.before, b.before) and _perm_equal(a.on, b.on)
        if type(b) is not list or len(b) != len(a.before) + len(a.on):
            return False
        return _perm_equal(a.before, b[: len(a.before)]) and _perm_equal(a.on, b[len(a.before):])
    if a is None or b is None:
        return a is None and b is None
    if isinstance(a, BaseException) or isinstance(b, BaseException):
        return a is b
    if isinstance(a, (list, tuple)) or isinstance(b, (list, tuple)):
        if type(a) is not type(b) or len(a) != len(b):
            return False
        return all(same_value(x, y) for x, y in zip(a, b))
    if isinstance(a, (dict, str)) or isinstance(b, (dict, str)):
        return type(a) is type(b) and a == b
    if isinstance(a, bool) != isinstance(b, bool):
        return False
    return True if a == b else False


def next_call(script, k):
    """Start a new top-level call: callback occurrences (and thus draw labels) are counted per call."""
    del script.log[:]
    script._first_trigger = None
    script.call_index = k
    script.occ = {}


def never_started(script):
    """(provider, name) of coroutine callbacks that were called but whose coroutine was never started."""
    import inspect

    out = []
    for provider, name, c in script.coros:
        if inspect.getcoroutinestate(c) == inspect.CORO_CREATED:
            out.append((provider, name))
            c.close()
    del script.coros[:]
    return out


def outcome_of(fn, sm):
    """Run fn() and classify what the caller sees."""
    try:
        return ("ret", fn())
    except (Boom, Abort) as e:
        return ("exc", ("Boom", e.idx))
    except sm.TransitionNotAllowed as e:
        return ("exc", ("TNA", str(e.event), getattr(e.state, "id", None)))


def accept_or_mismatch(acc, cur, events, outcome, tag, script_log):
    try:
        return acc.call(cur, events, outcome)
    except Reject as r:
        raise Mismatch(f"{r.kind}:{tag}", r.msg, {"log": brief_log(script_log), "outcome": repr(outcome)[:200]})
