"""C09 - class-definition validation accepts exactly the well-formed machines (SX).

Real code under the tracer: the *class statement itself* - State.__init__, State.to / from_.any, Transition.__init__,
StateMachineMetaclass.__init__ (add_from_attributes, add_state, add_event, AnyState._on_event_defined),
_check_initial_state, _check_final_states, _check_disconnected_state, _check_trap_states,
_check_reachable_final_states, graph.visit_connected_states.

Solver variables: the `initial` and `final` flag of every state and `strict_states` (symbolic bools: the metaclass
checks fork on them lazily).  Solver-enumerated structure: the directed multigraph (which ordered pairs carry a
transition, which self-loops are internal, which targets get a `from_.any()` edge, one duplicated edge).
Oracle: independent transitive closure.
"""

from __future__ import annotations

import warnings

from vfw.ctx import Mismatch

PROPERTY = "C09"
IDS = ["s0", "s1", "s2"]


def tasks(tier):
    quick = tier == "quick"
    out = []
    # n = 1 and n = 2: everything
    out.append({"n": 1, "masks": [0, 1], "extras": True})
    for m in range(16):
        if bin(m).count("1") >= 3:
            # the densest two-state graphs are split over two tasks by where the states come from
            out.append({"n": 2, "masks": [m], "extras": True, "source_set": "plain"})
            out.append({"n": 2, "masks": [m], "extras": True, "source_set": "other"})
        else:
            out.append({"n": 2, "masks": [m], "extras": True})
    # n = 3
    masks = list(range(512))
    if quick:
        masks = [m for m in masks if bin(m).count("1") <= 3 and bin(m).count("1") >= 1]
    single = [m for m in masks if bin(m).count("1") == 1]
    rest = [m for m in masks if bin(m).count("1") != 1]
    if quick:
        for m in single:
            out.append({"n": 3, "masks": [m], "extras": True, "enum": False})
    else:
        rest = single + rest
    chunk = 6 if quick else 1
    for lo in range(0, len(rest), chunk):
        few = all(bin(m).count("1") <= 2 for m in rest[lo : lo + chunk])
        out.append({"n": 3, "masks": rest[lo : lo + chunk], "extras": not quick, "enum": few, "sub2": (not quick) and all(bin(m).count("1") <= 3 for m in rest[lo : lo + chunk])})
    return out


BUDGET = {
    "quick": {"max_secs": 600, "task_secs": 400, "path_secs": 30},
    "thorough": {"max_secs": 7200, "task_secs": 3000, "path_secs": 60},
}
BOUNDS = {
    "quick": "all directed graphs over 1 and 2 states (every subset of ordered pairs incl. self-loops; and one of the variants {all self-loops internal, an internal "
    "transition between different states, a from_.any() edge to one target, a duplicated edge, from_.any() + internal}), all graphs over 3 states "
    "with 1..3 edges (the variants on the single-edge ones); "
    "the states come from State attributes, from States.from_enum over an IntEnum whose first member is 0 (single final member passed bare), or from a States({...}) collection declared below the from_.any() event (quick: from_enum on the 1- and 2-state graphs only); for every graph all assignments of initial/final flags and strict_states (symbolic); every definition is stated twice (the verdict may not depend on history) and an empty subclass with its own strict_states is validated again; a subclass adding a trap state is judged by its own strict_states.",
    "thorough": "all 512 edge sets over 3 states, with the internal / from_.any() / duplicate variants (from_enum as source on the graphs with <= 2 edges, the trap-state subclass on those with <= 3).",
}
OUTSIDE = "4 and 5 states (2^16 and 2^25 edge sets); inheritance as the source of the states (C15); from_enum(use_enum_instance=True); abstract base classes without states"
OBLIGATIONS = ["subclass-adds-trap-state", "states-from-enum", "states-from-collection", "subclass-revalidated", "accepted", "warned", "rejected", "rejected-strict", "any-edge", "internal-self", "internal-nonself-rejected", "no-events"]
ASSUMPTIONS = [
    "oracle: accept iff >=1 event, exactly one initial state, no transition out of a final state, internal only on self-transitions, all states reachable from the initial one; "
    "then a non-final state without outgoing transition, or (if a final state exists) without a path to a final state, raises under strict_states and warns otherwise",
    "from_.any() contributes one transition from every non-final state (declared before the event) to the target",
    "an internal transition between different states is rejected where it is declared (inside the class body); both places count as 'the class statement'",
]


def run(ctx, params):
    from statemachine import State, StateMachine
    from statemachine.exceptions import InvalidDefinition

    n = params["n"]
    ids = IDS[:n]
    mask = params["masks"][ctx.choose(len(params["masks"]), "mask")]
    pairs = [(i, j) for i in range(n) for j in range(n)]
    edges = [pairs[k] for k in range(len(pairs)) if mask >> k & 1]
    internal = set()
    any_targets = []
    dup = None
    bad_internal = None
    variants = ["none"]
    if params["extras"]:
        if any(i == j for i, j in edges):
            variants.append("internal")
        variants += [f"any{j}" for j in range(n)]
        if edges:
            variants.append("dup")
        if n >= 2:
            variants.append("bad_internal")
        if n >= 2 and edges:
            variants.append("any0+internal")
    variant = variants[ctx.choose(len(variants), "variant")]
    if "internal" in variant and variant != "bad_internal":
        internal = {(i, j) for i, j in edges if i == j}
    if variant.startswith("any"):
        any_targets = [int(variant[3])]
    if variant == "dup":
        dup = edges[0]
    if variant == "bad_internal":
        bad_internal = (0, 1)
    initial = [ctx.sym_bool(f"initial{i}") for i in range(n)]
    final = [ctx.sym_bool(f"final{i}") for i in range(n)]
    strict = ctx.sym_bool("strict")
    # where the states come from: State attributes, States.from_enum (member values 0..n-1: the first one is falsy), or a
    # States({...}) collection declared *below* the from_.any() event that has to cover its states
    sources = ["plain"]
    if params["extras"]:
        if params.get("enum", True):
            sources.append("enum")
        if any_targets:
            sources.append("collection")
    if params.get("source_set") == "plain":
        sources = ["plain"]
    elif params.get("source_set") == "other":
        sources = sources[1:] or ["plain"]
    source = sources[ctx.choose(len(sources), "source")]
    if source == "enum":
        n_ini = sum(1 for x in initial if x)
        if n_ini != 1:
            source = "plain"  # from_enum takes exactly one initial member

    # ------------------------------------------------ the class statement, under the tracer
    def class_statement(name):
        with warnings.catch_warnings(record=True) as caught_:
            warnings.simplefilter("always")
            try:
                if source == "enum":
                    import enum

                    from statemachine.states import States

                    with ctx.notracing():
                        E = enum.IntEnum("E", [(ids[i], i) for i in range(n)])
                    fins = [E[ids[i]] for i in range(n) if final[i]]
                    ini_member = [E[ids[i]] for i in range(n) if initial[i]][0]
                    sts = States.from_enum(E, initial=ini_member, final=fins[0] if len(fins) == 1 else (fins or None))
                    states = [getattr(sts, ids[i]) for i in range(n)]
                    attrs = {"sts": sts}
                elif source == "collection":
                    from statemachine.states import States

                    states = [State(initial=initial[i], final=final[i]) for i in range(n)]
                    j0 = any_targets[0]
                    attrs = {ids[j0]: states[j0], f"any{j0}": states[j0].from_.any()}
                    attrs["sts"] = States({ids[i]: states[i] for i in range(n) if i != j0})
                else:
                    states = [State(initial=initial[i], final=final[i]) for i in range(n)]
                    attrs = {ids[i]: states[i] for i in range(n)}
                k = 0
                for (i, j) in edges:
                    attrs[f"e{k}"] = states[i].to(states[j], internal=True) if (i, j) in internal else states[i].to(states[j])
                    k += 1
                if dup is not None:
                    attrs[f"e{k}"] = states[dup[0]].to(states[dup[1]])
                    k += 1
                if bad_internal is not None:
                    attrs[f"e{k}"] = states[bad_internal[0]].to(states[bad_internal[1]], internal=True)
                    k += 1
                for j in any_targets:
                    if source != "collection":
                        attrs[f"any{j}"] = states[j].from_.any()
                cls_ = type(StateMachine)(name, (StateMachine,), attrs, strict_states=strict)
                return "accepted", cls_, "", [w for w in caught_ if issubclass(w.category, UserWarning)]
            except InvalidDefinition as e:
                return "raised", None, str(e), [w for w in caught_ if issubclass(w.category, UserWarning)]

    outcome, cls, err, warned = class_statement("C09M")
    # the same definition stated a second time (another class object, same ids): the verdict may not depend on history
    outcome2, _cls2, err2, warned2 = class_statement("C09M2")

    # ------------------------------------------------ oracle
    fin = [True if f else False for f in final]
    ini = [True if x else False for x in initial]
    adj = {i: set() for i in range(n)}
    for (i, j) in edges:
        adj[i].add(j)
    for j in any_targets:
        for i in range(n):
            if not fin[i]:
                adj[i].add(j)
    has_events = bool(edges) or bool(any_targets) or bad_internal is not None

    def reach(src):
        seen, todo = {src}, [src]
        while todo:
            x = todo.pop()
            for y in adj[x]:
                if y not in seen:
                    seen.add(y)
                    todo.append(y)
        return seen

    hard = None
    if bad_internal is not None:
        hard = "internal transition between different states"
    elif not has_events:
        hard = "no events"
    elif sum(ini) != 1:
        hard = "not exactly one initial state"
    elif any(fin[i] and adj[i] for i in range(n)):
        hard = "transition leaving a final state"
    elif len(reach(ini.index(True))) != n:
        hard = "unreachable state"
    soft = None
    if hard is None:
        if any((not fin[i]) and not adj[i] for i in range(n)):
            soft = "non-final state without outgoing transition"
        elif any(fin) and any((not fin[i]) and not any(fin[y] for y in reach(i)) for i in range(n)):
            soft = "non-final state without path to a final state"
    st = True if strict else False
    if hard is not None or (soft is not None and st):
        expect = "raised"
    elif soft is not None:
        expect = "warned"
    else:
        expect = "accepted"
    desc = {
        "n": n, "edges": edges, "internal": sorted(internal), "any": any_targets, "dup": dup, "bad_internal": bad_internal,
        "initial": ini, "final": fin, "strict": st, "hard": hard, "soft": soft, "source": source,
    }
    got = outcome if outcome == "raised" else ("warned" if warned else "accepted")
    got2 = outcome2 if outcome2 == "raised" else ("warned" if warned2 else "accepted")
    shape = ("any" if any_targets else "plain") + ("" if source == "plain" else f":{source}")
    if source != "plain":
        ctx.cover(f"states-from-{source}")
    if got == expect and got2 != expect:
        raise Mismatch(f"verdict-depends-on-history:{shape}", f"the same definition stated twice: first {got}, second {got2} (expected {expect})", desc)
    if got != expect:
        if expect == "raised":
            kind = "malformed-class-accepted" if hard else "strict-violation-accepted"
        elif got == "raised":
            kind = "well-formed-class-rejected"
        else:
            kind = "warning-mismatch"
        raise Mismatch(f"{kind}:{shape}", f"expected {expect} ({hard or soft}), class statement {got}" + (f": {err}" if got == "raised" else ""), desc)
    # a subclass that adds nothing is validated again, under its own strict_states
    if got == expect and cls is not None and not any_targets:
        strict2 = ctx.sym_bool("strict.sub")
        with warnings.catch_warnings(record=True) as caught3:
            warnings.simplefilter("always")
            try:
                type(StateMachine)("C09Sub", (cls,), {}, strict_states=strict2)
                sub = "warned" if [w for w in caught3 if issubclass(w.category, UserWarning)] else "accepted"
            except InvalidDefinition:
                sub = "raised"
        st2 = True if strict2 else False
        exp_sub = "accepted" if soft is None else ("raised" if st2 else "warned")
        if sub != exp_sub:
            raise Mismatch(f"subclass-not-revalidated:{shape}", f"class {got}; `class Sub(M, strict_states={st2}): pass` was {sub}, expected {exp_sub} ({soft})", desc)
        ctx.cover("subclass-revalidated")
        # a subclass that ADDS a trap state: judged by the subclass's own strict_states, whatever the base's was
        if soft is None and not fin[ini.index(True)] and params.get("sub2", True):
            strict3 = ctx.sym_bool("strict.sub2")
            with warnings.catch_warnings(record=True) as caught4:
                warnings.simplefilter("always")
                try:
                    extra = State()
                    type(StateMachine)("C09Sub2", (cls,), {"extra": extra, "to_extra": getattr(cls, ids[ini.index(True)]).to(extra)}, strict_states=strict3)
                    sub2 = "warned" if [w for w in caught4 if issubclass(w.category, UserWarning)] else "accepted"
                except InvalidDefinition:
                    sub2 = "raised"
            st3 = True if strict3 else False
            exp2 = "raised" if st3 else "warned"
            if sub2 != exp2:
                raise Mismatch(f"subclass-strictness-not-its-own:{shape}", f"base (strict_states={st}) accepted; `class Sub(M, strict_states={st3})` adding a state without outgoing transition was {sub2}, expected {exp2}", desc)
            ctx.cover("subclass-adds-trap-state")
    if expect == "accepted":
        ctx.cover("accepted")
    elif expect == "warned":
        ctx.cover("warned")
    else:
        ctx.cover("rejected-strict" if hard is None else "rejected")
    if any_targets and hard is None:
        ctx.cover("any-edge")
    if internal and hard is None:
        ctx.cover("internal-self")
    if bad_internal is not None:
        ctx.cover("internal-nonself-rejected")
    if hard == "no events":
        ctx.cover("no-events")
    ctx.note(desc)
