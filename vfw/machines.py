"""Abstract machines (AM) and their rendering into real python-statemachine classes.

An AM is plain data:

    {"states": [{"id": "a", "initial": True, "final": False, "value": <opt>, "enter": [names], "exit": [names]}],
     "transitions": [{"src": "a", "tgt": "b", "events": ["go"], "internal": False,
                      "validators": [names], "cond": [entries], "unless": [entries],
                      "before": [names], "on": [names], "after": [names]}],
     "methods": {"machine": [names], "model": [names], "listener0": [names]},
     "async": [[provider, name], ...]}

Transitions are declared in list order (this *is* the declaration order of the property).  Every name in
"methods" becomes a method on that provider whose body defers to a `World` (log + scripted behaviour).
Generated callables get a `__qualname__` that is unique per (class uid, provider, name, sync/async) so that the
library's process-global signature cache cannot entangle unrelated harness paths (that cache is C16's subject).
"""

from __future__ import annotations

import itertools

_uid = itertools.count(1)

GROUPS = ["validators", "cond", "before", "exit", "on", "enter", "after"]


class World:
    """Per-path log and behaviour script shared by all generated callbacks."""

    def __init__(self, handler=None):
        self.log = []
        self.sm = None
        self.handler = handler
        self.muted = False

    def entry(self, provider, name, obj, args, kwargs):
        ev = kwargs.get("event")
        st = kwargs.get("state")
        src = kwargs.get("source")
        tgt = kwargs.get("target")
        e = {
            "provider": provider,
            "name": name,
            "event": None if ev is None else str(ev),
            "state": getattr(st, "id", None),
            "source": getattr(src, "id", None),
            "target": getattr(tgt, "id", None),
            "args": args,
            "kwargs": kwargs,
            "obj": obj,
        }
        return e

    def cb(self, provider, name, obj, args, kwargs):
        e = self.entry(provider, name, obj, args, kwargs)
        if self.muted:
            return None
        self.log.append(e)
        if self.handler is None:
            return None
        return self.handler(self, e)


def make_method(world_box, provider, name, is_async, uid, wrapped_plain=False, with_signature=False, kwonly=False):
    if kwonly and not is_async:
        # the callback declares the injected names as keyword-only parameters (and nothing else)
        def m(self, *, event=None, state=None, source=None, target=None, event_data=None, machine=None, transition=None, model=None):
            kwargs = {"event": event, "state": state, "source": source, "target": target, "event_data": event_data,
                      "machine": machine, "transition": transition, "model": model}
            return world_box[0].cb(provider, name, self, (), kwargs)

    elif is_async:
        import inspect

        async def inner(self, *args, **kwargs):
            w = world_box[0]
            if hasattr(w, "acb"):
                return await w.acb(provider, name, self, args, kwargs)
            return w.cb(provider, name, self, args, kwargs)

        def m(self, *args, **kwargs):
            # a coroutine function (marked as such) that also remembers the coroutine objects it hands out, so a harness
            # can tell "called but never awaited" apart from "never called"
            c = inner(self, *args, **kwargs)
            created = getattr(world_box[0], "coros", None)
            if created is not None:
                created.append((provider, name, c))
            return c

        if not wrapped_plain:
            inspect.markcoroutinefunction(m)

    else:

        def m(self, *args, **kwargs):
            return world_box[0].cb(provider, name, self, args, kwargs)

    m.__name__ = name
    if with_signature:
        # what signature-preserving decorators and spies leave behind: an explicit __signature__ on the callable
        import inspect as _inspect

        m.__signature__ = _inspect.signature(m)
    # uid may be a string "twin:<n>": then the plain and the coroutine rendering share one qualified name
    suffix = "" if str(uid).startswith("twin:") else f".{'a' if is_async else 's'}"
    m.__qualname__ = f"VM{uid}.{provider}.{name}{suffix}"
    return m


def render(am, world_box, class_name=None, strict_states=False, uid=None):
    """Build the real classes for `am` with the public declaration API.

    Returns dict(cls=<StateMachine subclass>, model_cls=<class or None>, listener_classes=[...]).
    """
    from statemachine import State, StateMachine

    uid = next(_uid) if uid is None else uid
    asyncs = {tuple(x) for x in am.get("async", [])}
    plain_wrapped = {tuple(x) for x in am.get("async_behind_plain_decorator", [])}
    sigged = {tuple(x) for x in am.get("with_signature_attribute", [])}
    kwonly_view = {tuple(x) for x in am.get("kwonly_view", [])}
    attrs = {}
    states = {}
    for s in am["states"]:
        kw = {}
        if s.get("value") is not None:
            kw["value"] = s["value"]
        if s.get("enter"):
            kw["enter"] = list(s["enter"])
        if s.get("exit"):
            kw["exit"] = list(s["exit"])
        states[s["id"]] = State(initial=bool(s.get("initial")), final=bool(s.get("final")), **kw)
        attrs[s["id"]] = states[s["id"]]
    ev_objs = {}
    if am.get("event_objects"):
        # id-less Event() objects declared up-front as class attributes and passed to the transitions by reference
        from statemachine import Event

        for t in am["transitions"]:
            for e in t["events"]:
                if e not in ev_objs:
                    ev_objs[e] = Event()
                    attrs[e] = ev_objs[e]
    decorated = dict(am.get("decorator_events", {}))  # event id -> label of the function given with @transitions
    tls_of = {e: [] for e in decorated}
    for t in am["transitions"]:
        kw = {}
        for g in ("validators", "cond", "unless", "before", "on", "after"):
            if t.get(g):
                v = list(t[g])
                kw[g] = v[0] if len(v) == 1 and t.get("unwrap_single", True) else v
        if t.get("internal"):
            kw["internal"] = True
        if not t["events"]:
            states[t["src"]].to(states[t["tgt"]], **kw)  # a transition that no event is bound to
        elif ev_objs:
            evs = [ev_objs[e] for e in t["events"]]
            states[t["src"]].to(states[t["tgt"]], event=evs[0] if len(evs) == 1 else evs, **kw)
        else:
            tl = states[t["src"]].to(states[t["tgt"]], event=" ".join(t["events"]), **kw)
            for e in t["events"]:
                if e in tls_of:
                    tls_of[e].append(tl)
    methods = am.get("methods", {})
    for e, label in decorated.items():
        # the documented spelling `@(t1 | t2)` / `def <event>(self): ...`: declares the event and its `on` action at once
        if tls_of[e]:
            tl = tls_of[e][0]
            for more in tls_of[e][1:]:
                tl = tl | more
            attrs[e] = tl(make_method(world_box, "machine", label, ("machine", label) in asyncs, uid))
    for name in methods.get("machine", []):
        if name in decorated.values():
            continue  # lives on the class as the decorated function above, not as an attribute of its own
        attrs[name] = make_method(world_box, "machine", name, ("machine", name) in asyncs, uid, ("machine", name) in plain_wrapped, ("machine", name) in sigged, ("machine", name) in kwonly_view)
    for name, val in am.get("class_attrs", {}).items():
        attrs[name] = val
    cname = class_name or f"VM{uid}"
    cls = type(StateMachine)(cname, (StateMachine,), attrs, strict_states=strict_states)
    out = {"cls": cls, "model_cls": None, "listener_classes": [], "uid": uid}
    if "model" in methods:
        mattrs = {
            name: make_method(world_box, "model", name, ("model", name) in asyncs, uid, False, ("model", name) in sigged)
            for name in methods["model"]
        }

        def __init__(self):
            self.state = None

        if am.get("model_base") == "library":
            # the model class derives from the library's own `Model` (a plain state holder) and adds the callbacks
            from statemachine.model import Model

            out["model_cls"] = type(f"Model{uid}", (Model,), mattrs)
        else:
            mattrs["__init__"] = __init__
            out["model_cls"] = type(f"Model{uid}", (), mattrs)
    i = 0
    while f"listener{i}" in methods:
        prov = f"listener{i}"
        lattrs = {
            name: make_method(world_box, prov, name, (prov, name) in asyncs, uid, False, (prov, name) in sigged) for name in methods[prov]
        }
        out["listener_classes"].append(type(f"Listener{uid}_{i}", (), lattrs))
        i += 1
    return out


# ------------------------------------------------------------------ expectations derived from an AM
def state_of(am, sid):
    for s in am["states"]:
        if s["id"] == sid:
            return s
    raise KeyError(sid)


def initial_state(am):
    return next(s for s in am["states"] if s.get("initial"))


def candidates(am, cur, event):
    """Transitions leaving `cur` bound to `event`, in declaration order."""
    return [t for t in am["transitions"] if t["src"] == cur and event in t["events"]]


def providers_of(am, name):
    return [p for p, names in am.get("methods", {}).items() if name in names]


def provider_order(am):
    ps = [p for p in am.get("methods", {})]
    key = lambda p: (0, 0) if p == "machine" else (1, 0) if p == "model" else (2, int(p[8:]))  # noqa: E731
    return sorted(ps, key=key)


_KW = {"and", "or", "not", "True", "False", "None"}


def entry_names(entry):
    """Names used by a cond/unless entry (a plain name or a boolean expression)."""
    import re

    return [n for n in re.findall(r"[A-Za-z_]\w*", entry) if n not in _KW]


def expected_group(am, t, event, group):
    """Set of (provider, name) that must run for `group` of transition `t` triggered by `event`."""
    names = []
    if group == "validators":
        names = list(t.get("validators", []))
    elif group == "cond":
        names = [n for e in list(t.get("cond", [])) + list(t.get("unless", [])) for n in entry_names(e)]
    elif group == "before":
        names = ["before_transition"] + list(t.get("before", [])) + [f"before_{event}"]
    elif group == "exit":
        if not t.get("internal"):
            s = state_of(am, t["src"])
            names = ["on_exit_state"] + list(s.get("exit", [])) + [f"on_exit_{t['src']}"]
    elif group == "on":
        names = ["on_transition"] + list(t.get("on", [])) + [f"on_{event}"]
    elif group == "enter":
        if not t.get("internal"):
            s = state_of(am, t["tgt"])
            names = ["on_enter_state"] + list(s.get("enter", [])) + [f"on_enter_{t['tgt']}"]
    elif group == "after":
        names = list(t.get("after", [])) + [f"after_{event}", "after_transition"]
    out = []
    for n in names:
        for p in providers_of(am, n):
            if (p, n) not in out:
                out.append((p, n))
    return out


def initial_enter_expected(am, start_id):
    s = state_of(am, start_id)
    names = ["on_enter_state"] + list(s.get("enter", [])) + [f"on_enter_{start_id}"]
    out = []
    for n in names:
        for p in providers_of(am, n):
            if (p, n) not in out:
                out.append((p, n))
    return out
