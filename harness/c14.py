"""C14 - event results come only from before/on return values, by the documented rule (SX).

Real code under the tracer: send -> ... -> _activate (result = before results + on results; 0 -> None,
1 -> unwrapped), CallbacksExecutor.call/async_call with the per-callback `is_same_event` filter.

Solver-enumerated structure: how the before and on groups are populated (none / generic / event-specific
convention / inline / all) on which providers, pre-state, event (incl. the second id of multi-event transitions,
internal and self transitions, a rejected first candidate), and which one callback invocation returns a value of
which awkward kind (None, [], [x], (), {}, "").  Solver variables: every other returned value (ints incl. 0) -
also the junk returned by validators, exit, enter and after callbacks, which must never surface.
"""

from __future__ import annotations

from harness.c02 import EVENTS, MIXES, STATES, build_am
from vfw.machines import render
from vfw.scenario import Acceptor, Script, accept_or_mismatch, outcome_of

PROPERTY = "C14"
MODES_Q = ["none", "specific", "all"]
MODES_T = ["none", "generic", "specific", "inline", "all"]


def tasks(tier):
    quick = tier == "quick"
    out = []
    for engine in ("sync", "async"):
        for mix in ((0, 1) if quick else range(len(MIXES))):
            for s0 in range(3):
                for mb in range(3 if quick else 5):
                    if quick and engine == "async" and mix == 1 and s0 != 0:
                        continue
                    out.append({"engine": engine, "rtc": True, "mix": mix, "s0": s0, "m_before": mb, "full": not quick})
    for s0 in range(3):
        for mb in (1, 2):  # the machine has event-specific callbacks; a listener with only generic ones is attached later
            out.append({"engine": "sync", "rtc": True, "mix": 0, "s0": s0, "m_before": mb, "full": not quick, "late": True})
    # "the outermost call returns the result of the first event": first event returns None, a queued one a value
    for engine in ("sync", "async"):
        for first in range(3):
            out.append({"kind": "first-none", "engine": engine, "rtc": True, "allow": False, "s0": 0, "first": first, "values": "first_none",
                        "calls": 1, "budget": 1, "listener": False, "drop": ["before_transition"], "send_events": ["go", "hop"]})
    if not quick:
        for mb in range(5):
            for s0 in range(3):
                out.append({"engine": "sync", "rtc": False, "mix": 1, "s0": s0, "m_before": mb, "full": True})
    return out


BUDGET = {
    "quick": {"max_secs": 600, "task_secs": 400, "path_secs": 30},
    "thorough": {"max_secs": 7200, "task_secs": 3000, "path_secs": 60},
}
BOUNDS = {
    "quick": "T-actions template (C02); before and on groups populated {none, event-specific convention, all styles} independently; exit/enter/after "
    "present (generic) and returning junk; providers {machine} / {machine, model, listener}; every pre-state x event {go, hop, tick, jump}; "
    "a variant with a listener that has only generic callbacks attached after construction; one invocation (any of the first 4 value-returning ones, or none) returns one of None, [], [x], (), {}, ''; all other values symbolic ints in [-3,3].",
    "thorough": "modes {none, generic, specific, inline, all}, provider mixes incl. listener-only and two listeners, also rtc=False.",
}
OUTSIDE = "more than one awkward value per event; values of other types (floats, objects); nested events (C03)"
OBLIGATIONS = ["first-event-none-with-queued-result", "late-generic-listener", "result-none", "result-single", "result-list", "special-value-returned", "internal", "multi-event-second-id", "no-transition"]
ASSUMPTIONS = [
    "result order inside the before group and inside the on group is free (the acceptor uses the observed order), before values precede on values",
    "values are compared by identity of kind and value: [] is not None, () is not [], 0 is not False",
]


def run(ctx, params):
    if params.get("kind") == "first-none":
        from harness import c03

        c03.run_first_fixed(ctx, dict(params, events=[["go", "hop", "tick"][params["first"]]]))
        ctx.cover("first-event-none-with-queued-result")
        return
    pool = MODES_T if params["full"] else MODES_Q
    modes = {"before": pool[params["m_before"]], "on": pool[ctx.choose(len(pool), "mode.on")],
             "exit": "generic", "enter": "generic", "after": "generic"}
    mix = MIXES[params["mix"]]
    is_async = params["engine"] == "async"
    late = params.get("late")
    with ctx.notracing():
        am = build_am(modes, mix, is_async)
        if late:
            am["methods"]["listener0"] = ["before_transition", "on_transition"]
        box = [None]
        r = render(am, box, class_name="C14M")
        script = Script(ctx, am, budget=0, values="special")
        box[0] = script
        model = r["model_cls"]() if r["model_cls"] else None
        listeners = [c() for c in r["listener_classes"]]
        script.muted = True
        sm = r["cls"](model, rtc=params["rtc"], listeners=[] if late else listeners, allow_event_without_transition=bool(params["s0"] == 0))
        if is_async:
            sm.activate_initial_state()
        sm.current_state_value = STATES[params["s0"]]
        script.muted = False
        script.sm = sm
    if late:
        sm.add_listener(*listeners)
        ctx.cover("late-generic-listener")
    cur = STATES[params["s0"]]
    ev = EVENTS[ctx.choose(len(EVENTS), "ev")]
    out = outcome_of(lambda: sm.send(ev), sm)
    acc = Acceptor(am, script.log, rtc=params["rtc"], is_async=is_async, allow=bool(params["s0"] == 0))
    tag = f"{params['engine']}:rtc={params['rtc']}"
    new = accept_or_mismatch(acc, cur, [ev], out, tag, script.log)
    ctx.check(sm.current_state.id == new, "wrong-state:" + tag)
    if out[0] == "ret":
        v = out[1]
        if not acc.fired:
            ctx.cover("no-transition")
        elif v is None:
            ctx.cover("result-none")
        elif isinstance(v, list) and len(v) >= 2:
            ctx.cover("result-list")
        else:
            ctx.cover("result-single")
    if script.special_used:
        ctx.cover("special-value-returned")
    for (e, ti, src, tgt) in acc.fired:
        t = am["transitions"][ti]
        if t.get("internal"):
            ctx.cover("internal")
        if len(t["events"]) > 1 and e == t["events"][1]:
            ctx.cover("multi-event-second-id")
    ctx.note({"modes": {k: modes[k] for k in ("before", "on")}, "mix": mix, "pre": cur, "event": ev, "outcome": out[0], "special": script.special})
