import warnings, asyncio, copy, pickle
from statemachine import StateMachine, State
from statemachine.signature import SignatureAdapter

# C07 kw-only after surplus positionals
def f(a, *, k=5): return (a, k)
sig = SignatureAdapter.from_callable(f)
ba = sig.bind_expected(1, 2, k=9)
print("C07 kwonly:", ba.args, ba.kwargs)

# C16 cache collision
def mk1():
    def cb(a, b=1): return ("v1", a, b)
    return cb
def mk2():
    def cb(a, /, b=2): return ("v2", a, b)
    return cb
# same qualname? differ: mk1.<locals>.cb vs mk2.<locals>.cb. make same
def mk(kind):
    if kind == 1:
        def cb(a, b=1): return ("v1", a, b)
    else:
        def cb(a, *, b=2): return ("v2", a, b)
    return cb
s1 = SignatureAdapter.from_callable(mk(1)); s2 = SignatureAdapter.from_callable(mk(2))
print("C16 cache same object:", s1 is s2, s1, s2)

# C10
class M(StateMachine):
    a = State(value=1, initial=True); z = State(value=0); 
    go = a.to(z); back = z.to(a)
print("C10 start_value=0 ->", M(start_value=0).current_state.id)
class LM(list): pass
lm = LM()
sm = M(lm); print("C10 falsy model kept:", sm.model is lm)

# C13
sm = M()
try:
    print("C13 send(add_listener):", sm.send("add_listener"))
except Exception as e: print("C13 exc", type(e), e)
for n in ("model", "__class__", "current_state", "states", "a", "send"):
    try: print("C13 send", n, "->", sm.send(n))
    except Exception as e: print("C13 send", n, "exc", type(e).__name__, e)

# C05: coroutine guard inside expression
class A(StateMachine):
    a = State(initial=True); b = State()
    go = a.to(b, cond="g1 and g2") | a.to(a)
    async def g1(self): return False
    async def g2(self): return True
with warnings.catch_warnings(record=True) as w:
    warnings.simplefilter("always")
    sm = A(); sm.send("go"); print("C05 expr with async guards ->", sm.current_state.id, [str(x.message) for x in w])

# C17: deepcopy before activation of async machine
class B(StateMachine):
    a = State(initial=True); b = State()
    go = a.to(b)
    async def on_go(self): return 1
async def t():
    sm = B()
    c = copy.deepcopy(sm)
    try:
        print("C17 clone unactivated:", await c.go(), c.current_state.id)
    except Exception as e: print("C17 exc", type(e).__name__, e)
asyncio.run(t())

# C12: late async listener on sync machine
class L:
    async def on_go(self): print("late async listener ran")
class C(StateMachine):
    a = State(initial=True); b = State()
    go = a.to(b)
with warnings.catch_warnings(record=True) as w:
    warnings.simplefilter("always")
    sm = C(); sm.add_listener(L()); r = sm.go(); print("C12 late async listener result:", r, [str(x.message) for x in w])
import gc; gc.collect()
