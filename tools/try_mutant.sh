#!/bin/bash
# usage: tools/try_mutant.sh <patch.diff> <Cxx> [tier]   - run a check against a scratch copy of /repo with the patch applied
set -u
diff="$(realpath "$1")"; prop="$2"; tier="${3:-quick}"
d=$(mktemp -d /tmp/mrepo.XXXXXX)
cp -r /repo/statemachine "$d/" || exit 3
(cd "$d" && patch -p1 -s < "$diff") || { echo "patch failed"; rm -rf "$d"; exit 3; }
cd /verif && VERIF_EVIDENCE_DIR="$d/evidence" VERIF_REPO="$d" ./vf check "$prop" --tier "$tier"; rc=$?
rm -rf "$d"
exit $rc
