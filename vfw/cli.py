"""vf command line: check / replay."""

from __future__ import annotations

import argparse
import importlib
import json
import multiprocessing as mp
import os
import sys
import time

from . import symx

VERIF_DIR = symx.VERIF_DIR
EXIT_OK, EXIT_VIOLATION, EXIT_HARNESS = 0, 1, 2


def harness_module(prop):
    return f"harness.{prop.lower()}"


def _git_head(path):
    import subprocess

    try:
        return subprocess.run(
            ["git", "-C", path, "rev-parse", "--short", "HEAD"], capture_output=True, text=True
        ).stdout.strip()
    except Exception:
        return "?"


def run_tasks(prop, mod, module_name, tier, seed, workers):
    """Explore every task of a harness module on the worker pool. Returns (specs, results, violation)."""
    t0 = time.time()
    tasks = mod.tasks(tier)
    budget = mod.BUDGET[tier]  # dict(max_secs total wall, task_secs, task_paths)
    specs = []
    for i, params in enumerate(tasks):
        specs.append(
            {
                "module": module_name,
                "params": params,
                "seed": seed,
                "task_id": i,
                "max_paths": budget.get("task_paths", 10**9),
                "max_secs": budget.get("task_secs", 600),
                "path_secs": budget.get("path_secs", 30.0),
            }
        )
    # longest-processing-time-first scheduling from the costs measured by an earlier clean run (a hint file, optional)
    cost_file = os.path.join(VERIF_DIR, "task_costs", f"{prop}-{tier}.json")
    costs = {}
    if os.path.exists(cost_file):
        try:
            with open(cost_file) as f:
                costs = json.load(f)
        except Exception:
            costs = {}
    specs.sort(key=lambda sp: -costs.get(json.dumps(sp["params"], sort_keys=True), 1e9))
    results = []
    violation = None
    deadline = t0 + budget.get("max_secs", 3600)
    ctx = mp.get_context("fork")
    with ctx.Pool(processes=min(workers, max(1, len(specs))), maxtasksperchild=budget.get("per_child", 8)) as pool:
        it = pool.imap_unordered(symx.explore_task, specs, chunksize=1)
        pending = len(specs)
        while pending:
            try:
                r = it.next(timeout=max(1.0, deadline - time.time()))
            except mp.TimeoutError:
                break
            except StopIteration:
                break
            pending -= 1
            results.append(r)
            if os.environ.get("VERIF_VERBOSE"):
                print(f"  task {r['task_id']} {r['params']} paths={r['paths']} ok={r['ok']} exh={r['exhausted']} cpu={r.get('cpu_s')} z3={r['z3_checks']}/{r['z3_secs']}s err={bool(r['error'])}", flush=True)
            if r["violation"]:
                violation = r
                break
        pool.terminate()
    return specs, results, violation


def cmd_check(args):
    prop = args.property.upper()
    tier = os.environ.get("VERIF_TIER") or args.tier
    seed = int(os.environ.get("VERIF_SEED", "0") or 0)
    workers = int(os.environ.get("VERIF_WORKERS", "0") or 0) or min(16, os.cpu_count() or 4)
    symx.setup_repo_path()
    sys.path.insert(0, VERIF_DIR)
    mod = importlib.import_module(harness_module(prop))
    if getattr(mod, "CUSTOM_MAIN", None):
        return mod.CUSTOM_MAIN(tier, seed, workers)
    t0 = time.time()
    specs, results, violation = run_tasks(prop, mod, harness_module(prop), tier, seed, workers)
    rc = finish(prop, mod, tier, seed, specs, results, violation, t0)
    cost_file = os.path.join(VERIF_DIR, "task_costs", f"{prop}-{tier}.json")
    if rc == EXIT_OK and os.environ.get("VERIF_WRITE_COSTS") and len(results) == len(specs):
        os.makedirs(os.path.dirname(cost_file), exist_ok=True)
        with open(cost_file, "w") as f:
            json.dump({json.dumps(r["params"], sort_keys=True): r.get("cpu_s", 0) for r in results}, f, indent=0, sort_keys=True)
    return rc


def finish(prop, mod, tier, seed, specs, results, violation, t0, extra_cov=None):
    known = symx.load_known(prop)
    total = lambda k: sum(r[k] for r in results)  # noqa: E731
    errors = [r for r in results if r["error"]]
    nonrepro = [x for r in results for x in r["nonrepro"]]
    covered = set()
    funcs = set()
    findings = {}
    for r in results:
        covered |= set(r["covered"])
        funcs |= set(r["funcs"])
        for k, v in r["findings"].items():
            findings[k] = findings.get(k, 0) + v
    tasks_done = len(results)
    tasks_exhausted = sum(1 for r in results if r["exhausted"])
    exhaustive = (
        tasks_done == len(specs)
        and tasks_exhausted == len(specs)
        and total("unknown") == 0
        and not errors
        and violation is None
    )
    obligations = list(getattr(mod, "OBLIGATIONS", []))
    missing = [o for o in obligations if o not in covered]
    samples = []
    for r in results:
        for s in r["samples"][:1]:
            if len(samples) < 6:
                samples.append({"task": r["params"], **s})
    if violation:
        samples.insert(0, {"violation": violation["violation"], "task": violation["params"]})
    wall = round(time.time() - t0, 2)
    cov = {
        "evaluations": total("paths"),
        "distinct_nontrivial": total("ok"),
        "rule": (
            "one evaluation = one symbolic path of the harness through the real library under CrossHair's "
            "tracer (a conjunction of branch decisions that z3 found satisfiable; it stands for every concrete "
            "value of the symbolic draws consistent with it). Paths are distinct by construction (leaves of one "
            "decision tree per task). non-trivial = reached the end of the harness with all assumptions met "
            "(status ok); ignored = assumption failed; unknown = solver/timeout."
        ),
        "samples": samples or [{"note": "no completed path"}],
        "exhaustive": bool(exhaustive),
        "tasks": len(specs),
        "tasks_completed": tasks_done,
        "tasks_exhausted": tasks_exhausted,
        "paths_ok": total("ok"),
        "paths_ignored": total("ignored"),
        "paths_unknown": total("unknown"),
        "z3_queries": total("z3_checks"),
        "z3_unknown": total("z3_unknown"),
        "z3_seconds": round(sum(r["z3_secs"] for r in results), 2),
        "cpu_seconds": round(sum(r.get("cpu_s", 0) for r in results), 2),
        "functions_executed_symbolically": sorted(funcs),
        "bounds": mod.BOUNDS[tier] if isinstance(getattr(mod, "BOUNDS", None), dict) else getattr(mod, "BOUNDS", ""),
        "outside_bounds": getattr(mod, "OUTSIDE", ""),
        "obligations_required": obligations,
        "obligations_missing": missing,
        "known_findings_matched": findings,
        "nonreproducing_counterexamples": nonrepro[:5],
        "errors": [e["error"][-1500:] for e in errors[:5]],
        "repo_head": _git_head(symx.repo_path()),
        "engine": "crosshair-tool 0.0.110 (StateSpace/RootNode/tracer) + z3-solver, driver vfw.symx",
    }
    if extra_cov:
        cov.update(extra_cov)
    ev = {
        "property_id": prop,
        "tier": tier,
        "seed": seed,
        "level": "model_checking",
        "coverage": cov,
        "assumptions": list(getattr(mod, "ASSUMPTIONS", [])),
        "wall_s": wall,
        "violations": 1 if violation else 0,
    }
    ev_dir = os.environ.get("VERIF_EVIDENCE_DIR") or os.path.join(VERIF_DIR, "evidence")  # scratch dir for self-tests on mutants
    os.makedirs(ev_dir, exist_ok=True)
    with open(os.path.join(ev_dir, f"{prop}.json"), "w") as f:
        json.dump(ev, f, indent=1, sort_keys=True)
        f.write("\n")

    print(
        f"[{prop}] tier={tier} tasks={tasks_done}/{len(specs)} exhausted={tasks_exhausted} paths={cov['evaluations']} "
        f"ok={cov['paths_ok']} ignored={cov['paths_ignored']} unknown={cov['paths_unknown']} "
        f"z3={cov['z3_queries']}q/{cov['z3_seconds']}s wall={wall}s exhaustive={exhaustive}"
    )
    for kind, n in sorted(findings.items()):
        e = symx.match_known(known, kind)
        print(f"KNOWN-FINDING: property={prop} {e['what_fails']} [{kind}; {n} path(s)]")
    if violation:
        v = violation["violation"]
        print(f"  kind={v['kind']} msg={v['msg']}")
        print(f"VIOLATION property={prop} replay={v['replay']}")
        return EXIT_VIOLATION
    if errors:
        print("HARNESS-ERROR:", errors[0]["error"][-2000:])
        return EXIT_HARNESS
    if nonrepro:
        print("HARNESS-ERROR: counterexample(s) did not reproduce concretely:", json.dumps(nonrepro[0])[:2000])
        return EXIT_HARNESS
    if missing and tasks_done >= len(specs):
        print("HARNESS-ERROR: coverage obligations never hit (vacuity guard):", missing)
        return EXIT_HARNESS
    if tasks_done < len(specs):
        # the wall-clock budget cut the run: what was explored held; the evidence says exhaustive=false and lists the
        # obligations that the tasks which did run have not reached (the vacuity guard is for complete runs)
        print(f"note: budget ended with {len(specs) - tasks_done} task(s) not run; run is not exhaustive" + (f"; obligations not reached: {missing}" if missing else ""))
    return EXIT_OK


def cmd_replay(args):
    sys.path.insert(0, VERIF_DIR)
    with open(args.path) as f:
        head = json.load(f)
    symx.setup_repo_path()
    mod = importlib.import_module(head["harness"])
    if getattr(mod, "CUSTOM_REPLAY", None):
        return mod.CUSTOM_REPLAY(args.path)
    kind, msg, details, body = symx.replay_file(args.path)
    if kind is None:
        print(f"NOT-REPRODUCED ({msg}); recorded kind={body['kind']}")
        return 0
    print(f"REPRODUCED property={body['property']} kind={kind} msg={msg}")
    if details is not None:
        print("details:", json.dumps(symx._jsonable(details), indent=1)[:4000])
    if kind != body["kind"]:
        print(f"note: recorded kind was {body['kind']}")
    return 1


def main(argv=None):
    ap = argparse.ArgumentParser(prog="vf")
    sub = ap.add_subparsers(dest="cmd", required=True)
    c = sub.add_parser("check")
    c.add_argument("property")
    c.add_argument("--tier", default="quick", choices=["quick", "thorough"])
    r = sub.add_parser("replay")
    r.add_argument("path")
    args = ap.parse_args(argv)
    if args.cmd == "check":
        return cmd_check(args)
    if args.cmd == "replay":
        return cmd_replay(args)


if __name__ == "__main__":
    sys.exit(main())
