"""C03 - run-to-completion: nested events are queued, FIFO, never interleaved (SX).

Real code under the tracer: Event.__call__, StateMachine._put_nonblocking/_processing_loop, BaseEngine.put,
SyncEngine/AsyncEngine.processing_loop/_trigger/_activate, StateMachine.__init__ + SyncEngine.start (initial
activation), and the callback machinery below them.

Solver-enumerated structure: at every callback invocation (any group, machine or listener, incl. the initial
enter callbacks) whether it sends `go`/`hop`/`tick` as a nested event, under a total budget; pre-state; the
events of the history.  Solver variables: return value of every before/on callback (the outer caller must get
the *first* event's result), guard values, and the length N of a self-triggering chain.
"""

from __future__ import annotations

from harness.eng_common import EVENTS, STATES, build, chain_am, frame_check, lib_root, run_history
from vfw.ctx import Mismatch
from vfw.scenario import Acceptor, accept_or_mismatch, outcome_of

PROPERTY = "C03"


def tasks(tier):
    quick = tier == "quick"
    out = []
    for engine in ("sync", "async"):
        for rtc in ((True, False) if engine == "sync" else (True,)):
            out.append({"kind": "chain", "engine": engine, "rtc": rtc, "max_n": 4 if quick else 8})
    def hist(engine, rtc, s0, first, budget, values="int"):
        # thorough: a listener (3 more callbacks per transition) on the single-call histories from a; two calls elsewhere
        with_listener = not quick and values == "int" and s0 == 0
        out.append({"kind": "history", "engine": engine, "rtc": rtc, "allow": False, "s0": s0, "first": first, "values": values,
                    "calls": 2 if (not quick and values == "int" and engine == "sync" and not with_listener) else 1, "budget": budget, "listener": with_listener,
                    "drop": ["before_transition"] if values in ("first_none", "single_int") else [],
                    "send_events": ["go", "hop"] if quick else ["go", "hop", "tick"]})

    for engine in ("sync", "async"):
        out.append({"kind": "burst", "engine": engine})
    for first in range(3):
        if quick:
            hist("async", True, 3, first, 1)
            hist("async", True, 0, first, 2)
            hist("sync", True, 0, first, 1, "first_none")
            hist("async", True, 0, first, 1, "first_none")
            if first == 2:
                hist("sync", False, 1, first, 2)  # rtc=False, the internal transition (b, tick) with nested sends from its callbacks
            hist("sync", True, 1, first, 1, "single_int")  # exactly one before/on callback: its value (also 0) is the result
            hist("sync", False, 1, first, 1, "single_int")
            hist("async", True, 1, first, 1, "single_int")
            for s0 in range(4):
                hist("sync", True, s0, first, 2)
            for s0 in (0, 2):
                hist("sync", False, s0, first, 2)
                hist("sync", True, s0, first, 2, "first_none")
                hist("async", True, s0, first, 2, "first_none")
        else:
            for s0 in range(4):
                hist("async", True, s0, first, 2)
                hist("sync", True, s0, first, 2)
                hist("sync", False, s0, first, 2)
                hist("sync", True, s0, first, 2, "first_none")
                hist("async", True, s0, first, 2, "first_none")
                hist("sync", True, s0, first, 2, "single_int")
                hist("sync", False, s0, first, 2, "single_int")
                hist("async", True, s0, first, 2, "single_int")
    return out


BUDGET = {
    "quick": {"max_secs": 600, "task_secs": 400, "path_secs": 30},
    "thorough": {"max_secs": 7200, "task_secs": 3400, "path_secs": 60},
}
BOUNDS = {
    "quick": "T-chain template (3 states, 8 transitions incl. internal, self, guarded, validator), the 5 generic action callbacks on the machine "
    "(+ guards/validator); every pre-state and the from-construction scenario (initial enter callbacks "
    "may send); one top-level event; up to 2 nested sends placed at any callback invocation, each of {go,hop}; engines sync rtc (all pre-states), sync non-rtc (pre-states a, c), "
    "all-async (pre-state a; from-construction with 1 nested send); self-triggering chain of symbolic length N<=4 with call-stack depth compared link by link.",
    "thorough": "as quick with histories of 2 top-level events on the sync engine (pre-states b, c, from-construction; rtc and non-rtc) or one event with a listener adding 3 more callbacks per transition (pre-state a), nested events {go,hop,tick}, all pre-states on the async engine, chain N<=8 (two-call histories with the listener did not exhaust a single task in an hour and were cut).",
}
OUTSIDE = "more than 3 nested sends per history; chains longer than the bound are covered by the depth-equality step and by one concrete 5000-link run (sanity, reported separately); more than a handful of *pending* events - backed by one concrete burst of (queue capacity + 1, or 1100) sends from one callback per engine, which is a test of the no-capacity assumption, not a solver result; OS threads (C06)"
OBLIGATIONS = ["burst-all-processed", "first-result-none", "nested-send", "queued-event-ran", "from-construction", "chain-link", "nested-send-failed", "failed-call:TNA"]
ASSUMPTIONS = [
    "classes/instances built natively except in the from-construction scenario; every send() under the tracer",
    "order inside a callback group is free; FIFO is judged on the order in which the nested sends were observed",
    "the nested result rule for rtc=False (nested call returns its own result) and for rtc=True (None) follows processing_model.md",
]


def run(ctx, params):
    if params["kind"] == "chain":
        return run_chain(ctx, params)
    if params["kind"] == "burst":
        from harness.eng_common import burst_check

        return burst_check(ctx, params["engine"], PROPERTY)
    p = dict(params)
    p["events"] = [EVENTS[params["first"]]]  # first call's event is fixed by the task, later calls choose freely
    return run_first_fixed(ctx, p)


def run_first_fixed(ctx, p):
    script_kw = {"budget": p["budget"], "actions": ("send",), "send_events": tuple(p["send_events"]), "values": "int" if p["values"] == "single_int" else p["values"]}
    first = p["events"][0]
    p2 = dict(p)
    p2["events"] = EVENTS

    class _Ctx:  # the first call's event comes from the task, not from the solver
        def __getattr__(self, k):
            return getattr(ctx, k)

        def choose(self, n, label="c"):
            if label == "call0":
                return EVENTS.index(first)
            return ctx.choose(n, label)

    return run_history(_Ctx(), p2, script_kw, PROPERTY, "C03M")


def run_chain(ctx, params):
    """`tick` from state a (external self-transition) re-sends itself from after_transition while a counter < N."""
    is_async = params["engine"] != "sync"
    am = chain_am(asyncs_all=is_async)
    n = ctx.sym_int("N", 0, params["max_n"])
    st = {"count": 0}

    def custom(script, idx, provider, name, info):
        if provider == "machine" and name == "after_transition" and info["event"] == "tick":
            if st["count"] < n:
                st["count"] += 1
                return ("send", "tick")
        return None

    r, script, model, listeners = build(ctx, am, params, {"budget": 0, "values": "int", "measure_depth": True, "lib_root": lib_root()}, "C03C")
    script.custom = custom
    with ctx.notracing():
        script.muted = True
        sm = r["cls"](model, rtc=params["rtc"], listeners=listeners)
        if is_async:
            sm.activate_initial_state()
        script.muted = False
        script.sm = sm
    out = outcome_of(lambda: sm.send("tick"), sm)
    acc = Acceptor(am, script.log, rtc=params["rtc"], is_async=is_async)
    tag = f"chain:{params['engine']}:rtc={params['rtc']}"
    accept_or_mismatch(acc, "a", ["tick"], out, tag, script.log)
    frame_check(ctx, sm, tag)
    links = len(acc.fired)
    if links != st["count"] + 1:
        raise Mismatch(f"chain-length:{tag}", f"{st['count']} re-sends but {links} transitions ran")
    if links > 1:
        ctx.cover("chain-link")
    by_phase = {}
    for ev, phase, d in acc.depths:
        by_phase.setdefault(phase, []).append(d)
    for phase, ds in by_phase.items():
        if params["rtc"]:
            if len(set(ds)) != 1:
                raise Mismatch(f"stack-depth-grows:{tag}", f"library frames on the stack in {phase} along the chain: {ds}")
        else:
            # depth-first order itself is judged by the acceptor; here only: the nesting is real
            if links > 1 and phase == "after" and len(set(ds)) < links:
                raise Mismatch(f"non-rtc-not-depth-first:{tag}", f"depths in {phase}: {ds}")
    ctx.note({"N": st["count"], "links": links, "depths": {k: v[:6] for k, v in by_phase.items()}})
