import sys, warnings
from typing import List
from crosshair.tracers import NoTracing
from crosshair.core import IgnoreAttempt, realize
from statemachine import StateMachine, State
from statemachine.exceptions import InvalidDefinition
import drv
N = int(sys.argv[1])

def reach(adj, src):
    seen = {src}; todo = [src]
    while todo:
        x = todo.pop()
        for y in range(N):
            if adj[x*N+y] and y not in seen:
                seen.add(y); todo.append(y)
    return seen

def check(adj: List[bool], init: List[bool], fin: List[bool], strict: bool) -> bool:
    if not (len(adj) == N*N and len(init) == N and len(fin) == N): raise IgnoreAttempt
    states = [State(initial=init[i], final=fin[i]) for i in range(N)]
    attrs = {f"s{i}": states[i] for i in range(N)}
    k = 0
    for i in range(N):
        for j in range(N):
            if adj[i*N+j]:
                attrs[f"e{k}"] = states[i].to(states[j]); k += 1
    # oracle
    n_init = sum(1 for b in init if b)
    err = False
    if k == 0: err = True   # no events
    elif n_init != 1: err = True
    elif any(fin[i] and any(adj[i*N+j] for j in range(N)) for i in range(N)): err = True
    else:
        i0 = [i for i in range(N) if init[i]][0]
        if len(reach(adj, i0)) != N: err = True
    warn = False
    if not err:
        trap = any((not fin[i]) and not any(adj[i*N+j] for j in range(N)) for i in range(N))
        nofinal = any(fin) and any((not fin[i]) and not any(fin[j] for j in reach(adj, i)) for i in range(N))
        warn = trap or nofinal
    with warnings.catch_warnings(record=True) as w:
        warnings.simplefilter("always")
        try:
            cls = type(StateMachine)("G", (StateMachine,), attrs, strict_states=strict)
            raised = False
        except InvalidDefinition:
            raised = True
    if err: return raised
    if warn and strict: return raised
    if warn: return (not raised) and len(w) > 0
    return (not raised) and len(w) == 0

if __name__ == "__main__":
    import time
    t=time.time()
    r = drv.run(check, timeout=float(sys.argv[2]))
    print({k:(v if k not in('fail','exc') else v[:3]) for k,v in r.items()}, round(time.time()-t,1))
