import sys
from typing import List
from crosshair.tracers import NoTracing
from crosshair.core import IgnoreAttempt, realize
from statemachine import StateMachine, State
from statemachine.exceptions import InvalidDefinition
import drv
NAMES = ["alpha", "vault", "notify"]
DEPTH = int(sys.argv[1])

class Gen:
    """derive an expression tree from a list of small ints (realized)"""
    def __init__(self, ch): self.ch = ch; self.i = 0
    def nxt(self, n):
        if self.i >= len(self.ch): raise IgnoreAttempt
        v = self.ch[self.i]; self.i += 1
        if not (0 <= v < n): raise IgnoreAttempt
        return v
    def expr(self, d):
        k = self.nxt(6 if d > 0 else 2)
        if k == 0: return ("name", self.nxt(3))
        if k == 1: return ("const", self.nxt(3))  # True/False/1
        if k == 2: return ("not", self.expr(d-1))
        if k == 3: return ("and", self.expr(d-1), self.expr(d-1))
        if k == 4: return ("or", self.expr(d-1), self.expr(d-1))
        if k == 5: return ("cmp", self.nxt(6), self.expr(0), self.expr(0))

OPS = ["<", "<=", "==", "!=", ">", ">="]
def render(t, style):
    k = t[0]
    if k == "name": return NAMES[t[1]]
    if k == "const": return ["True", "False", "1"][t[1]]
    if k == "not": return ("!" if style else "not ") + "(" + render(t[1], style) + ")"
    if k == "and": return "(" + render(t[1], style) + (" ^ " if style else " and ") + render(t[2], style) + ")"
    if k == "or": return "(" + render(t[1], style) + (" v " if style else " or ") + render(t[2], style) + ")"
    if k == "cmp": return render(t[2], style) + " " + OPS[t[1]] + " " + render(t[3], style)

def ev(t, env, log):
    k = t[0]
    if k == "name": log.append(t[1]); return env[t[1]]
    if k == "const": return [True, False, 1][t[1]]
    if k == "not": return not ev(t[1], env, log)
    if k == "and": return ev(t[1], env, log) and ev(t[2], env, log)
    if k == "or": return ev(t[1], env, log) or ev(t[2], env, log)
    if k == "cmp":
        import operator
        f = [operator.lt, operator.le, operator.eq, operator.ne, operator.gt, operator.ge][t[1]]
        return f(ev(t[2], env, log), ev(t[3], env, log))

def check(ch: List[int], style: bool, vals: List[int]) -> bool:
    if not (len(ch) <= 12 and len(vals) == 3): raise IgnoreAttempt
    with NoTracing():
        chc = [realize(c) for c in ch]
        st = realize(style)
    g = Gen(chc)
    tree = g.expr(DEPTH)
    if g.i != len(chc): raise IgnoreAttempt
    if tree[0] == "const" or tree[0] == "name": raise IgnoreAttempt
    with NoTracing():
        src = render(tree, st)
        log = []
        ns = {}
        for i, nm in enumerate(NAMES):
            def getter(self, i=i):
                log.append(i); return self._vals[i]
            ns[nm] = property(getter)
        a = State(initial=True); b = State(); c = State()
        ns.update(a=a, b=b, c=c, go=a.to(b, cond=src) | a.to(c), back=b.to(a) | c.to(a))
        cls = type(StateMachine)("E", (StateMachine,), ns)
        sm = cls()
    sm._vals = vals
    sm.send("go")
    got = sm.current_state.id == "b"
    got_log = list(log)
    elog = []
    exp = bool(ev(tree, vals, elog))
    return got == exp and got_log == elog

if __name__ == "__main__":
    import time
    t=time.time()
    r = drv.run(check, timeout=float(sys.argv[2]))
    print({k:(v if k not in('fail','exc') else v[:3]) for k,v in r.items()}, round(time.time()-t,1))
