"""C01 - transition selection follows the declared machine (SX).

Real code under the tracer: StateMachine.send -> Event.__call__ -> (Sync|Async)Engine.processing_loop ->
_trigger -> _activate -> CallbacksRegistry.call/all (+ async twins) -> CallbackWrapper -> Events.match.

Solver variables: every guard value (bool or int, re-drawn for every event), whether each validator raises.
Solver-enumerated structure: pre-state (any declared state, including the final one), the event of each step
(declared ids, ids that are prefixes/extensions of declared ids, unknown ids), and for the G family the whole
definition (source, target, event subset, guard configuration, internal flag of each generated transition).
Task-level (concrete) switches: template, engine rendering, rtc, allow_event_without_transition, value kind.
"""

from __future__ import annotations

from vfw.ctx import Mismatch
from vfw.machines import World, candidates, render

PROPERTY = "C01"


class ValErr(Exception):
    pass


# ------------------------------------------------------------------------------------------ T-guards
def t_guards_am(asyncs):
    am = {
        "states": [
            {"id": "a", "initial": True},
            {"id": "b"},
            {"id": "c"},
            {"id": "d", "final": True},
        ],
        "transitions": [
            {"src": "a", "tgt": "b", "events": ["go"], "cond": ["c0"], "unless": ["u0"], "validators": ["v0"]},
            {"src": "a", "tgt": "c", "events": ["go"], "cond": ["c1a", "c1b"], "validators": ["v1"]},
            {"src": "a", "tgt": "a", "events": ["go"], "cond": ["e2a or not e2b"]},
            {"src": "a", "tgt": "a", "events": ["go_back"], "internal": True},
            {"src": "b", "tgt": "c", "events": ["go", "hop"]},
            {"src": "b", "tgt": "a", "events": ["go_back"], "unless": ["u5"]},
            {"src": "c", "tgt": "d", "events": ["go"], "cond": ["c6"]},
            {"src": "c", "tgt": "c", "events": ["go"], "internal": True, "unless": ["u7a", "u7b"]},
        ],
        "methods": {
            "machine": ["c0", "u0", "v0", "c1a", "c1b", "v1", "e2a", "e2b", "u5", "c6", "u7a", "u7b"]
        },
    }
    am["async"] = [["machine", n] for n in asyncs]
    return am


T_EVENTS = ["go", "go_back", "hop", "g", "go_", "go_backx", "nope"]
GUARD_NAMES = ["c0", "u0", "c1a", "c1b", "e2a", "e2b", "u5", "c6", "u7a", "u7b"]
VALIDATORS = ["v0", "v1"]


# ------------------------------------------------------------------------------------------ G family
G_EVENTS = ["go", "go_back", "hop"]
G_EVENT_SETS = [["go"], ["go_back"], ["go", "hop"]]
G_GUARDS = [  # (cond, unless) name templates, instantiated per transition index
    ([], []),
    (["c{i}"], []),
    ([], ["u{i}"]),
    (["c{i}"], ["u{i}"]),
]


def g_am(ctx, n_states, n_trans, reduced, ends):
    ids = ["a", "b", "c"][:n_states]
    trans = []
    names = []
    sets = G_EVENT_SETS[::2] if reduced else G_EVENT_SETS
    for i in range(n_trans):
        src, tgt = ends[2 * i], ends[2 * i + 1]
        evs = sets[ctx.choose(len(sets), f"t{i}.events")]
        gi = ctx.choose(2 if reduced else len(G_GUARDS), f"t{i}.guards")
        if reduced:
            gi = [0, 3][gi]
        cond = [c.format(i=i) for c in G_GUARDS[gi][0]]
        unless = [u.format(i=i) for u in G_GUARDS[gi][1]]
        internal = bool(src == tgt and ctx.choose(2, f"t{i}.internal"))
        names += cond + unless
        trans.append(
            {"src": ids[src], "tgt": ids[tgt], "events": list(evs), "cond": cond, "unless": unless, "internal": internal}
        )
    # fixed unguarded ring on a separate event keeps every definition valid (all states reachable)
    for k in range(n_states):
        trans.append({"src": ids[k], "tgt": ids[(k + 1) % n_states], "events": ["ring"]})
    return {
        "states": [{"id": s, "initial": s == "a"} for s in ids],
        "transitions": trans,
        "methods": {"machine": names},
        "async": [],
    }, names


# ------------------------------------------------------------------------------------------ oracle
class Unread(Exception):
    pass


class _Reads(dict):
    def __missing__(self, k):
        raise Unread(k)


def entry_status(entry, reads, expected):
    """'pass' / 'fail' / 'unknown' of one cond (expected=True) or unless (expected=False) entry, using only
    the values the implementation actually read (unread values are unconstrained: the solver may pick them)."""
    try:
        v = bool(eval(entry, {"__builtins__": {}}, reads))  # noqa: S307 - entries are our own guard names
    except Unread:
        return "unknown"
    return "pass" if v == expected else "fail"


def cand_status(t, reads):
    sts = [entry_status(c, reads, True) for c in t.get("cond", [])]
    sts += [entry_status(u, reads, False) for u in t.get("unless", [])]
    if "fail" in sts:
        return "fail"
    if "unknown" in sts:
        return "unknown"
    return "pass"


def guard_names_of(t):
    import re

    out = list(t.get("validators", []))
    for entry in list(t.get("cond", [])) + list(t.get("unless", [])):
        out += re.findall(r"[A-Za-z_]\w*", entry)
    return [n for n in out if n not in ("or", "not", "and")]


# ------------------------------------------------------------------------------------------ harness
_CACHE = {}


def prepare(params):
    if params["family"] == "T":
        box = [None]
        am = t_guards_am(params["asyncs"])
        if params.get("event_objects"):
            am["event_objects"] = True
        _CACHE["T"] = (am, render(am, box, class_name="C01T"), box)


def tasks(tier):
    out = []
    quick = tier == "quick"
    async_sets = {
        "sync": [],
        "async_all": [g for g in GUARD_NAMES if g not in ("e2a", "e2b")] + VALIDATORS,
        "async_one": ["c1b"],
        "async_val": ["v1"],
    }

    def t_task(eng, rtc, allow, vkind, s0, steps):
        out.append(
            {"family": "T", "engine": eng, "asyncs": async_sets[eng], "rtc": rtc, "allow": allow, "vkind": vkind, "s0": s0, "steps": steps}
        )

    for rtc in (True, False):
        for allow in (False, True):
            for s0 in range(4):
                t_task("sync", rtc, allow, "bool", s0, 2 if quick else 3)
    for s0 in range(4):
        # the same template declared through id-less Event() objects passed by reference
        out.append({"family": "T", "engine": "sync", "asyncs": [], "rtc": True, "allow": False, "vkind": "bool", "s0": s0,
                    "steps": 1 if quick else 2, "event_objects": True})
    for s0 in range(4):
        t_task("sync", True, False, "int", s0, 2 if quick else 3)
        t_task("async_all", True, False, "int", s0, 1 if quick else 2)
    for eng in ["async_all", "async_one"] + ([] if quick else ["async_val"]):
        for allow in (False, True):
            for s0 in range(4):
                t_task(eng, True, allow, "bool", s0, 1 if quick else 2)
    # generated definitions, partitioned on the endpoints of the two generated transitions
    def g_tasks(n, rtc, allow, reduced, steps):
        for a in range(n):
            for b in range(n):
                for c in range(n):
                    for d in range(n):
                        out.append(
                            {"family": "G", "n": n, "t": 2, "reduced": reduced, "engine": "sync", "asyncs": [], "rtc": rtc,
                             "allow": allow, "vkind": "bool", "ends": [a, b, c, d], "steps": steps}
                        )

    if quick:
        g_tasks(2, True, False, True, 1)
    else:
        for rtc in (True, False):
            for allow in (False, True):
                g_tasks(2, rtc, allow, False, 1)
        g_tasks(2, True, False, True, 2)
        g_tasks(3, True, False, True, 1)
    return out


BUDGET = {
    "quick": {"max_secs": 600, "task_secs": 300, "path_secs": 30},
    "thorough": {"max_secs": 7200, "task_secs": 3000, "path_secs": 60},
}
BOUNDS = {
    "quick": "T-guards template (4 states, 8 transitions, 3 candidates on (a,go), multi-event, internal, cond+unless, "
    "expression guard, 2 validators) x engines {sync, all-async, one-async-guard} x rtc x allow x value kind {bool,int}, "
    "every pre-state (also with the template declared through id-less Event() objects), 2-event histories over 7 event ids with all guard values re-drawn per event; "
    "G(2 states, 2 generated transitions, 3 event sets, 2 guard configs) + ring, 1 event from every state.",
    "thorough": "as quick with 3-event histories, also a one-async-validator rendering; G(2,2) with 4 guard configs and "
    "2-event histories; G(3 states, 2 generated transitions) reduced, 1 event.",
}
OUTSIDE = "more than 4 states / 8 transitions per template, more than 2 generated transitions, histories longer than 3 events (covered only through the arbitrary pre-state), free-form event strings (see C13), guard values other than bool/int"
OBLIGATIONS = ["fired:0", "fired:1", "fired:2", "validator-raised", "tna", "tolerated", "unknown-event", "internal-fired", "multi-event-fired"]
ASSUMPTIONS = [
    "machine classes and instances are built natively (outside the tracer) from already-concrete choices; send() and everything below it run under the tracer",
    "guard values and validator faults are drawn when the implementation reads them; the oracle judges from the values read (unread values are unconstrained, so a candidate skipped or fired without a complete reading is a violation)",
    "async renderings keep the operands of the boolean-expression guard synchronous: coroutine operands inside expressions are C05's subject (known finding there)",
    "oracle: the fired transition is the first candidate in declaration order against which the implementation holds no failing guard, and it must have read all of that candidate's guards as passing; guards of one candidate may be read in any order",
]


def run(ctx, params):
    fam = params["family"]
    if fam == "T":
        am, rendered, box = _CACHE["T"]
        events = T_EVENTS
        s0 = params["s0"]
    else:
        am, _names = g_am_first(ctx, params)
        events = (["go", "hop", "ring", "g"] if params["reduced"] else G_EVENTS + ["ring", "g", "go_"])
        with ctx.notracing():
            box = [None]
            rendered = render(am, box, class_name="C01G")
        s0 = ctx.choose(params["n"], "s0")
    ids = [s["id"] for s in am["states"]]
    is_async = bool(params["asyncs"])
    declared = {x for tt in am["transitions"] for x in tt["events"]}
    all_validators = {v for tt in am["transitions"] for v in tt.get("validators", [])}

    st = {"step": 0, "reads": _Reads(), "order": [], "raised": []}

    def handler(world, e):
        # values are drawn when (and only when) the implementation reads them; the truth value is decided here,
        # in invocation order, so the library's own bool() on the value is already determined
        n = e["name"]
        st["order"].append(n)
        if n in all_validators:
            r = ctx.sym_bool(f"{n}.raises@{st['step']}")
            if r:
                st["reads"][n] = "raised"
                st["raised"].append(n)
                raise ValErr(n)
            st["reads"][n] = "ok"
            return None
        if params["vkind"] == "bool":
            v = ctx.sym_bool(f"{n}@{st['step']}")
        else:
            v = ctx.sym_int(f"{n}@{st['step']}", -2, 2)
        st["reads"][n] = True if v else False
        return v

    with ctx.notracing():
        world = World(handler)
        world.muted = True
        box[0] = world
        sm = rendered["cls"](rtc=params["rtc"], allow_event_without_transition=params["allow"])
        world.sm = sm
        if is_async:
            sm.activate_initial_state()
        sm.current_state_value = ids[s0]
        world.muted = False
    cur = ids[s0]
    tag = f"{fam}:{params['engine']}:rtc={params['rtc']}"

    for step in range(params["steps"]):
        ev = events[ctx.choose(len(events), f"ev{step}")]
        st.update(step=step, reads=_Reads(), order=[], raised=[])
        outcome = None
        try:
            ret = sm.send(ev)
            outcome = ("ret", ret)
        except ValErr as e:
            outcome = ("valerr", str(e))
        except sm.TransitionNotAllowed as e:
            outcome = ("tna", e)
        got = sm.current_state.id
        reads, order = st["reads"], list(st["order"])
        cands = candidates(am, cur, ev)
        info = {"pre": cur, "event": ev, "outcome": outcome[0], "post": got, "read": order}

        # which candidate does the implementation claim to have stopped at?
        if outcome[0] == "valerr":
            ctx.cover("validator-raised")
            idx = [i for i, t in enumerate(cands) if outcome[1] in t.get("validators", [])]
            if not idx or reads.get(outcome[1]) != "raised":
                raise Mismatch(f"foreign-validator-error:{tag}", f"{info}")
            last, new = idx[0], cur
        else:
            if st["raised"]:
                raise Mismatch(f"validator-error-swallowed:{tag}", f"{st['raised']} raised but send() returned normally: {info}")
            if got != cur or any(cand_status(t, reads) == "pass" and not t.get("internal") for t in cands):
                pass
            # the fired candidate is identified by the *state reached* together with guard evidence
            fired = None
            for i, t in enumerate(cands):
                s_i = cand_status(t, reads)
                if s_i == "fail":
                    continue
                fired = i  # first candidate the implementation has no evidence against
                break
            if fired is None:
                last, new = len(cands) - 1, cur
                if cands:
                    pass
                if ev not in declared:
                    ctx.cover("unknown-event")
                if params["allow"]:
                    ctx.cover("tolerated")
                    if outcome != ("ret", None):
                        raise Mismatch(f"tolerated-event-not-ignored:{tag}", f"{info}")
                else:
                    ctx.cover("tna")
                    if outcome[0] != "tna":
                        raise Mismatch(f"no-transition-but-no-TNA:{tag}", f"every candidate has a failing guard, yet: {info}")
                    exc = outcome[1]
                    if not (exc.event == ev and getattr(exc.state, "id", None) == cur):
                        raise Mismatch(f"TNA-payload:{tag}", f"event={exc.event!r} state={getattr(exc.state, 'id', None)!r}; {info}")
            else:
                t = cands[fired]
                if cand_status(t, reads) != "pass":
                    # not all of its guards were read: for the unread ones the solver may pick failing values,
                    # so whatever the implementation did next it did without checking the conjunction
                    if outcome[0] == "ret" and got == t["tgt"]:
                        raise Mismatch(f"fired-without-reading-all-guards:{tag}", f"candidate {fired} fired, guards read: {order}; {info}")
                    raise Mismatch(f"candidate-skipped-without-evidence:{tag}", f"candidate {fired} has no failing guard among those read: {info}")
                ctx.cover(f"fired:{min(fired, 2)}")
                if t.get("internal"):
                    ctx.cover("internal-fired")
                if len(t["events"]) > 1:
                    ctx.cover("multi-event-fired")
                if outcome[0] != "ret":
                    raise Mismatch(f"enabled-transition-not-fired:{tag}", f"candidate {fired} is enabled: {info}")
                last, new = fired, t["tgt"]
        if got != new or sm.current_state_value != new:
            raise Mismatch(f"wrong-state:{tag}", f"expected {new}: {info}")
        # validators of every tried candidate ran (validators come before conditions), none of a later one
        for t in cands[: last + 1]:
            for v in t.get("validators", []):
                if v not in reads:
                    raise Mismatch(f"validator-not-run:{tag}", f"{v} of a tried candidate never ran: {info}")
        allowed = set()
        for t in cands[: last + 1]:
            allowed |= set(guard_names_of(t))
        extra = [n for n in order if n not in allowed]
        if extra:
            raise Mismatch(f"later-candidate-evaluated:{tag}", f"read {extra} beyond candidate {last}: {info}")
        ctx.note(info)
        cur = new


def g_am_first(ctx, params):
    return g_am(ctx, params["n"], params["t"], params["reduced"], params["ends"])
