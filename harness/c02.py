"""C02 - callback groups run in the documented order with the documented view of state (SX).

Real code under the tracer: StateMachine.__init__ (initial activation), send -> Event.__call__ ->
processing_loop -> _trigger -> _activate -> CallbacksRegistry.call/async_call -> CallbacksExecutor.call ->
CallbackWrapper(.call) -> signature adapter -> generated callback.

Solver-enumerated structure (per path): for each action group {before, exit, on, enter, after} how it is
populated (none / generic convention / specific convention / inline / all), provider mix, pre-state, event.
Solver variable: the guard value of the first (a, go) candidate (rejected candidates must run no actions).
"""

from __future__ import annotations

from vfw.machines import render
from vfw.scenario import ANY, Acceptor, Script, accept_or_mismatch, outcome_of

PROPERTY = "C02"

STATES = ["a", "b", "c"]
EVENTS = ["go", "hop", "tick", "jump"]
MODES_QUICK = ["none", "all"]
MODES_FULL = ["none", "generic", "specific", "inline", "all"]
MIXES = [["machine"], ["machine", "model", "listener0"], ["listener0"], ["machine", "listener0", "listener1"]]


def build_am(modes, mix, asyncs_all):
    """modes: dict group -> mode."""

    def inl(group, names):
        return list(names) if modes[group] in ("inline", "all") else []

    am = {
        "states": [
            {"id": "a", "initial": True, "enter": inl("enter", ["en_a"]), "exit": inl("exit", ["ex_a"])},
            {"id": "b", "enter": inl("enter", ["en_b", "shared_b"]), "exit": inl("exit", ["ex_b", "shared_b"])},
            {"id": "c", "enter": inl("enter", ["en_c"])},
        ],
        "transitions": [
            {"src": "a", "tgt": "b", "events": ["go"], "cond": ["ok0"], "validators": ["v_t0"],
             "before": inl("before", ["b_t0"]), "on": inl("on", ["o_t0"]), "after": inl("after", ["f_t0"])},
            {"src": "a", "tgt": "c", "events": ["go"], "on": inl("on", ["o_t1"])},
            {"src": "b", "tgt": "b", "events": ["go", "hop"], "before": inl("before", ["b_t2", "shared_t2"]), "after": inl("after", ["f_t2", "shared_t2"]), "on": inl("on", ["shared_t2"])},
            {"src": "b", "tgt": "b", "events": ["tick"], "internal": True, "on": inl("on", ["o_t3"]), "before": inl("before", ["b_t3"])},
            {"src": "b", "tgt": "c", "events": ["jump"]},
            {"src": "c", "tgt": "a", "events": ["go", "hop"], "after": inl("after", ["f_t5"]), "on": inl("on", ["o_t5"])},
            {"src": "c", "tgt": "c", "events": ["tick"], "internal": True},
            {"src": "a", "tgt": "a", "events": ["tick"]},
        ],
    }
    names = []
    generic = {"before": ["before_transition"], "on": ["on_transition"], "after": ["after_transition"],
               "enter": ["on_enter_state"], "exit": ["on_exit_state"]}
    specific = {
        "before": [f"before_{e}" for e in EVENTS],
        "on": [f"on_{e}" for e in EVENTS],
        "after": [f"after_{e}" for e in EVENTS],
        "enter": [f"on_enter_{s}" for s in STATES],
        "exit": [f"on_exit_{s}" for s in STATES],
    }
    inline = {
        "before": ["b_t0", "b_t2", "b_t3", "shared_t2"], "on": ["o_t0", "o_t1", "o_t3", "o_t5", "shared_t2"], "after": ["f_t0", "f_t2", "f_t5", "shared_t2"],
        "enter": ["en_a", "en_b", "en_c", "shared_b"], "exit": ["ex_a", "ex_b", "shared_b"],
    }
    for g, mode in modes.items():
        if mode in ("generic", "all"):
            names += generic[g]
        if mode in ("specific", "all"):
            names += specific[g]
        if mode in ("inline", "all"):
            names += [n for n in inline[g] if n not in names]
    methods = {}
    for p in mix:
        methods[p] = list(names)
    methods.setdefault("machine", [])
    methods["machine"] = methods["machine"] + ["ok0", "v_t0"]
    if "machine" not in mix:
        # inline names must resolve somewhere: they live on the listener only (late/other providers are C12's subject)
        pass
    am["methods"] = methods
    am["async"] = [[p, n] for p, ns in methods.items() for n in ns] if asyncs_all else []
    if not asyncs_all:
        # two of the machine's generic callbacks declare the injected names as keyword-only parameters; every event is
        # sent with a positional payload that no callback declares
        am["kwonly_view"] = [["machine", n] for n in ("on_enter_state", "after_transition", "before_transition") if n in methods["machine"]][:2]
    if "on_jump" in methods["machine"] and not asyncs_all:
        # the machine's event-specific `on` action of `jump` is given with the decorator spelling
        #   @b.to(c)
        #   def jump(self): ...
        am["decorator_events"] = {"jump": "on_jump"}
    if asyncs_all:
        # every third coroutine callback of the machine sits behind a plain `def` wrapper that returns the coroutine
        # (an `async def` under an ordinary decorator): not a coroutine function, still awaited by the async engine
        am["async_behind_plain_decorator"] = [["machine", n] for k, n in enumerate(methods["machine"]) if k % 3 == 1]
    return am


def tasks(tier):
    out = []
    quick = tier == "quick"
    for engine in ("sync", "async"):
        for rtc in ((True, False) if engine == "sync" else (True,)):
            for mix in range(2 if quick else len(MIXES)):
                for s0 in range(4):  # 3 = initial-activation scenario
                    for m_before in range(2 if quick else 5):
                        out.append({"engine": engine, "rtc": rtc, "mix": mix, "s0": s0, "m_before": m_before, "full": not quick})
    return out


BUDGET = {
    "quick": {"max_secs": 600, "task_secs": 300, "path_secs": 30},
    "thorough": {"max_secs": 7200, "task_secs": 3000, "path_secs": 60},
}
BOUNDS = {
    "quick": "T-actions template (3 states, 8 transitions: guarded + fallback candidates, external, self, internal, two multi-event "
    "transitions); each of the 5 action groups populated {none, all attachment styles}; providers {machine} or {machine, model, listener}; "
    "engines sync(rtc on/off) and all-async; every pre-state x every event, plus the initial-activation scenario (construction; on the "
    "async engine activation through the first event).",
    "thorough": "as quick with each group populated {none, generic convention, specific convention, inline, all} and provider mixes "
    "{machine}, {machine, model, listener}, {listener only}, {machine, two listeners}.",
}
OUTSIDE = "(one inline name is deliberately reused across groups of the same state / transition) decorator-declared callbacks and callables passed by reference (C15/C12 render those), more than one inline callback per group and transition, nested events (C03), faults (C04)"
OBLIGATIONS = ["external", "self-external", "internal", "multi-event-second-id", "rejected-candidate", "initial-activation", "tna"]
ASSUMPTIONS = [
    "classes are built natively per path from concrete choices; instance construction in the initial-activation scenario, and every send(), run under the tracer",
    "order inside one group is unconstrained (documented); the acceptor takes the observed order",
    "callbacks declare (self, *args, **kwargs) and therefore receive every injected built-in (binding is C07's subject)",
]


def run(ctx, params):
    full = params["full"]
    modes_pool = MODES_FULL if full else MODES_QUICK
    modes = {"before": modes_pool[params["m_before"]]}
    for g in ("exit", "on", "enter", "after"):
        modes[g] = modes_pool[ctx.choose(len(modes_pool), f"mode.{g}")]
    mix = MIXES[params["mix"]]
    is_async = params["engine"] == "async"
    with ctx.notracing():
        am = build_am(modes, mix, is_async)
        box = [None]
        r = render(am, box, class_name="C02M")
        script = Script(ctx, am, budget=0)
        box[0] = script
        model = r["model_cls"]() if r["model_cls"] else None
        listeners = [c() for c in r["listener_classes"]]
    kw = {"rtc": params["rtc"], "listeners": listeners}
    tag = f"{params['engine']}:rtc={params['rtc']}"
    if params["s0"] == 3:
        # initial activation: only the initial state's enter callbacks, under __initial__
        ctx.cover("initial-activation")
        sm = r["cls"](model, **kw)
        script.sm = sm
        if not is_async:
            acc = Acceptor(am, script.log, rtc=params["rtc"], is_async=False)
            accept_or_mismatch(acc, None, ["__initial__"], ("ret", ANY), "init:" + tag, script.log)
            if sm.current_state.id != "a":
                ctx.check(False, "initial-state-not-active:" + tag)
            return
        ev = EVENTS[ctx.choose(len(EVENTS), "ev")]
        out = outcome_of(lambda: sm.send(ev, 7), sm)
        acc = Acceptor(am, script.log, rtc=True, is_async=True)
        new = accept_or_mismatch(acc, None, ["__initial__", ev], out, "init:" + tag, script.log)
        ctx.check(sm.current_state.id == new, "wrong-state:init:" + tag, f"expected {new}, got {sm.current_state.id}")
        return
    with ctx.notracing():
        script.muted = True
        sm = r["cls"](model, **kw)
        if is_async:
            sm.activate_initial_state()
        sm.current_state_value = STATES[params["s0"]]
        script.muted = False
        script.sm = sm
    cur = STATES[params["s0"]]
    ev = EVENTS[ctx.choose(len(EVENTS), "ev")]
    out = outcome_of(lambda: sm.send(ev, 7), sm)
    acc = Acceptor(am, script.log, rtc=params["rtc"], is_async=is_async)
    new = accept_or_mismatch(acc, cur, [ev], out, tag, script.log)
    ctx.check(sm.current_state.id == new, "wrong-state:" + tag, f"expected {new}, got {sm.current_state.id}")
    if out[0] == "exc":
        ctx.cover("tna")
    for (e, ti, src, tgt) in acc.fired:
        t = am["transitions"][ti]
        if t.get("internal"):
            ctx.cover("internal")
        elif src == tgt:
            ctx.cover("self-external")
        else:
            ctx.cover("external")
        if len(t["events"]) > 1 and e == t["events"][1]:
            ctx.cover("multi-event-second-id")
        if ti == 1:
            ctx.cover("rejected-candidate")
    ctx.note({"modes": modes, "mix": mix, "pre": cur, "event": ev, "outcome": out[0], "post": new, "callbacks": len(script.log)})
