import warnings
warnings.simplefilter("ignore")
from statemachine import StateMachine, State
from statemachine.exceptions import InvalidDefinition
def mk(cond, **attrs):
    ns = dict(a=State(initial=True), b=State(), c=State())
    ns["go"] = ns["a"].to(ns["b"], cond=cond) | ns["a"].to(ns["c"])
    ns["back"] = ns["b"].to(ns["a"]) | ns["c"].to(ns["a"])
    ns.update(attrs)
    return type(StateMachine)("X", (StateMachine,), ns)
for cond in ["x>=1", "x >= 1", "p^q", "p ^ q", "True", "not p", "!p", "p v q", "pvq", "(p)", "p and", "p + q", "p if q else p", "x>=1 and p", "1 < x < 3", "x == 'a'", "p.q", "f()", ""]:
    try:
        cls = mk(cond, x=2, p=True, q=False, pvq=False)
    except Exception as e:
        print(repr(cond), "-> class-time", type(e).__name__, e); continue
    try:
        sm = cls()
    except Exception as e:
        print(repr(cond), "-> init-time", type(e).__name__, str(e)[:90]); continue
    try:
        sm.send("go"); print(repr(cond), "->", sm.current_state.id)
    except Exception as e:
        print(repr(cond), "-> send-time", type(e).__name__, str(e)[:90])
