"""C11 - initial activation happens once; a stored state is resumed untouched (SX).

Real code under the tracer: StateMachine.__init__, BaseEngine.start, SyncEngine.start/activate_initial_state,
AsyncEngine.activate_initial_state, processing_loop (both engines, rtc on/off), _trigger's `__initial__` branch,
_initial_transition, _get_initial_state, StateMachine.activate_initial_state.

Solver-enumerated structure: what the model stores before construction (nothing / any state), start_value, engine
and rtc, whether an initial enter callback sends an event, the number of extra activations, a history prefix, a
re-construction over the same model, and on the async engine whether the first thing after construction is an
explicit activation or an event.  Solver variables: guard values met on the way.
"""

from __future__ import annotations

from harness.eng_common import STATES, chain_am, frame_check
from vfw.ctx import Mismatch
from vfw.machines import render
from vfw.scenario import ANY, Acceptor, Script, accept_or_mismatch, outcome_of

PROPERTY = "C11"


def tasks(tier):
    quick = tier == "quick"
    out = []
    for engine, rtc in (("sync", True), ("sync", False), ("async", True)):
        for stored in range(4):  # 0 = nothing stored, 1..3 = a, b, c
            for sv in range(2):  # 0 absent, 1 start_value = 'b'
                out.append({"engine": engine, "rtc": rtc, "stored": stored, "sv": sv, "prefix": 1 if quick else 2, "falsy": False})
        for stored in (0, 2):
            out.append({"engine": engine, "rtc": rtc, "stored": stored, "sv": 1, "prefix": 1, "falsy": True})
        out.append({"engine": engine, "rtc": rtc, "nested_ctor": True})
    return out


BUDGET = {
    "quick": {"max_secs": 600, "task_secs": 400, "path_secs": 30},
    "thorough": {"max_secs": 3600, "task_secs": 3000, "path_secs": 60},
}
BOUNDS = {
    "quick": "T-chain template with generic enter/exit/... callbacks on machine and a listener (incl. on_enter_a); model holding nothing or any of the 3 states; "
    "start_value absent or 'b'; engines sync rtc, sync non-rtc, async; an initial enter callback may send one nested event {go, hop}; 0..2 extra "
    "activate_initial_state() calls; a history prefix of 0..1 events; re-construction of a second machine over the same model followed by one event on it; a sibling instance over an empty model with the other start_value; "
    "async: first action after construction is an explicit activation or an event; a variant whose states b, c have the falsy values 0 and ''; "
    "a machine constructed from inside each callback group of another, busy machine.",
    "thorough": "history prefix of 0..2 events.",
}
OUTSIDE = "several machines sharing one model concurrently; a never-activated async machine whose model is given a state by someone else before its first event"
OBLIGATIONS = ["sibling-other-start-value", "nested-construction", "falsy-stored-value", "activated-once", "resumed", "reactivation-noop", "reconstructed", "initial-enter-sent-event", "async-explicit-activation", "async-activation-by-first-event", "start-value"]
ASSUMPTIONS = [
    "nothing stored = the model attribute is None (the library's documented trigger for activation)",
    "on the async engine construction runs no callback; activation happens at the first loop entry (explicit activation or first event)",
]


def run_nested_ctor(ctx, params):
    """A second machine is constructed (and, if async, activated) from inside a callback of a machine that is busy."""
    is_async = params["engine"] == "async"
    rtc = params["rtc"]
    am = chain_am(asyncs_all=is_async, with_listener=False)
    made = []
    with ctx.notracing():
        box = [None]
        r = render(am, box, class_name="C11N")
        script = Script(ctx, am, budget=0)
        box[0] = script
    where = ["before_transition", "on_exit_state", "on_transition", "on_enter_state", "after_transition"][ctx.choose(5, "where")]

    def custom(scr, idx, provider, name, info):
        if name == where and not made and info["event"] == "go":
            scr.muted = True
            try:
                inner = r["cls"](rtc=rtc)
                if is_async:
                    made.append(inner)  # activated below, outside the running loop
                else:
                    made.append(inner)
            finally:
                scr.muted = False
        return None

    with ctx.notracing():
        script.muted = True
        sm = r["cls"](rtc=rtc)
        if is_async:
            sm.activate_initial_state()
        script.muted = False
        script.sm = sm
    script.custom = custom
    sm.send("go")
    tag = f"nested-ctor:{params['engine']}:rtc={rtc}"
    if not made:
        raise Mismatch(f"harness:{tag}", "hook did not run")
    inner = made[0]
    script.muted = True
    if is_async:
        inner.activate_initial_state()
    try:
        st = inner.current_state.id
    except Exception as e:
        if type(e).__name__ == "NotDeterministic":
            raise
        raise Mismatch(f"machine-built-inside-a-callback-not-activated:{tag}", f"constructed during {where} of another machine's event: {type(e).__name__}: {e}")
    if st != "a" or sm.current_state.id != "b":
        raise Mismatch(f"machine-built-inside-a-callback-wrong-state:{tag}", f"inner in {st}, outer in {sm.current_state.id}")
    inner.send("go")
    if inner.current_state.id != "b" or sm.current_state.id != "b":
        raise Mismatch(f"machine-built-inside-a-callback-wrong-state:{tag}", "after an event on the inner machine")
    ctx.cover("nested-construction")


def run(ctx, params):
    if params.get("nested_ctor"):
        return run_nested_ctor(ctx, params)
    is_async = params["engine"] == "async"
    rtc = params["rtc"]
    # non-falsy variant: multi-character values, and what the model holds is an equal but distinct object (what a
    # value read back from storage looks like) - "untouched" is judged by identity
    vals = {"a": "a", "b": 0, "c": ""} if params["falsy"] else {"a": "st-a", "b": "st-b", "c": "st-c"}
    am = chain_am(asyncs_all=is_async, with_listener=True, values=vals)
    start_id = "b" if params["sv"] else "a"
    stored = params["stored"]
    with ctx.notracing():
        box = [None]
        r = render(am, box, class_name="C11M")
        script = Script(ctx, am, budget=1 if not stored else 0, actions=("send",), send_events=("go", "hop"), values="int")
        script.where = lambda provider, name, info: info["event"] == "__initial__"
        box[0] = script

        class Model:
            pass

        model = Model()
        model.state = vals[STATES[stored - 1]] if stored else None
        if stored and type(model.state) is str and len(model.state) > 1:
            model.state = "".join(list(model.state))  # equal, not identical
        token = model.state
        listeners = [c() for c in r["listener_classes"]]
    kw = {"rtc": rtc, "listeners": listeners}
    if params["sv"]:
        kw["start_value"] = vals["b"]
    tag = f"{params['engine']}:rtc={rtc}"
    cur = STATES[stored - 1] if stored else None

    def expect_silence(what, sm):
        if script.log:
            raise Mismatch(f"callbacks-ran-on-{what}:{tag}", f"{what}: {[(x[2], x[3]) for x in script.log if x[0] == 'cb']}")
        if stored and model.state is not token and what != "reactivation-after-history":
            raise Mismatch(f"stored-value-touched:{tag}", f"{what}: model.state was {token!r}, now {model.state!r} (judged by identity: an equal value written over the stored one is a write)")

    # ---------------------------------------------------------------- construction
    out = outcome_of(lambda: r["cls"](model, **kw), r["cls"])
    if out[0] == "exc":
        # only possible when an initial enter callback sent an event that is refused
        acc = Acceptor(am, script.log, rtc=rtc, is_async=False, start_id=start_id)
        accept_or_mismatch(acc, None, ["__initial__"], out, "ctor:" + tag, script.log)
        return
    sm = out[1]
    script.sm = sm
    pending_initial = False
    if stored:
        expect_silence("construction-over-stored-state", sm)
        ctx.cover("resumed")
        if not model.state:
            ctx.cover("falsy-stored-value")
    elif is_async:
        expect_silence("async-construction", sm)
        pending_initial = True
    else:
        acc = Acceptor(am, script.log, rtc=rtc, is_async=False, start_id=start_id)
        cur = accept_or_mismatch(acc, None, ["__initial__"], ("ret", ANY), "ctor:" + tag, script.log)
        ctx.cover("activated-once")
        if params["sv"]:
            ctx.cover("start-value")
        if any(x[0] == "send" for x in script.log):
            ctx.cover("initial-enter-sent-event")
    if not pending_initial:
        ctx.check(sm.current_state.id == cur, f"wrong-state-after-construction:{tag}", f"expected {cur}, got {sm.current_state.id}")

    # ---------------------------------------------------------------- async: explicit activation or first event
    if pending_initial:
        if ctx.choose(2, "explicit"):
            del script.log[:]
            out = outcome_of(lambda: sm.activate_initial_state(), sm)
            acc = Acceptor(am, script.log, rtc=True, is_async=True, start_id=start_id)
            cur = accept_or_mismatch(acc, None, ["__initial__"], out if out[0] == "exc" else ("ret", ANY), "activate:" + tag, script.log)
            if out[0] == "exc":
                return
            pending_initial = False
            ctx.cover("async-explicit-activation")
            ctx.cover("activated-once")
            if any(x[0] == "send" for x in script.log):
                ctx.cover("initial-enter-sent-event")
            ctx.check(sm.current_state.id == cur, f"wrong-state-after-activation:{tag}")

    # ---------------------------------------------------------------- extra activations are no-ops
    if not pending_initial:
        n_re = ctx.choose(3, "reactivations")
        for _ in range(n_re):
            del script.log[:]
            script.budget = 0
            out = outcome_of(lambda: sm.activate_initial_state(), sm)
            if out[0] != "ret":
                raise Mismatch(f"reactivation-raised:{tag}", f"{out!r}")
            expect_silence("reactivation", sm)
            ctx.check(sm.current_state.id == cur, f"reactivation-moved-state:{tag}")
            ctx.cover("reactivation-noop")
            frame_check(ctx, sm, tag)

    # ---------------------------------------------------------------- history prefix
    script.budget = 0
    n_hist = ctx.choose(params["prefix"] + 1, "prefix")
    for k in range(n_hist):
        del script.log[:]
        out = outcome_of(lambda: sm.send("go"), sm)
        acc = Acceptor(am, script.log, rtc=rtc, is_async=is_async, start_id=start_id)
        evs = (["__initial__"] if pending_initial else []) + ["go"]
        if pending_initial:
            ctx.cover("async-activation-by-first-event")
            ctx.cover("activated-once")
        pending_initial = False
        cur = accept_or_mismatch(acc, cur, evs, out, tag, script.log)
        ctx.check(sm.current_state.id == cur, f"wrong-state:{tag}", f"expected {cur}, got {sm.current_state.id}")
    if pending_initial:
        return  # an async machine that was never driven holds no state yet

    # ---------------------------------------------------------------- restart over the same model
    del script.log[:]
    token2 = model.state
    out = outcome_of(lambda: r["cls"](model, **kw), r["cls"])
    if out[0] != "ret":
        raise Mismatch(f"reconstruction-raised:{tag}", f"constructing a second machine over a model that holds {token2!r}: {out!r}")
    sm2 = out[1]
    if script.log:
        raise Mismatch(f"callbacks-ran-on-reconstruction:{tag}", f"{[(x[2], x[3]) for x in script.log if x[0] == 'cb']}")
    if model.state is not token2:
        raise Mismatch(f"stored-value-touched:{tag}", f"reconstruction: model.state was {token2!r}, now {model.state!r}")
    script.sm = sm2
    ctx.cover("reconstructed")
    del script.log[:]
    if ctx.choose(2, "reactivate2"):
        out = outcome_of(lambda: sm2.activate_initial_state(), sm2)
        if out[0] != "ret":
            raise Mismatch(f"reactivation-raised:{tag}", f"on the reconstructed machine: {out!r}")
        if script.log or model.state is not token2:
            raise Mismatch(f"callbacks-ran-on-reactivation:{tag}", "on the reconstructed machine")
    out = outcome_of(lambda: sm2.send("go"), sm2)
    acc = Acceptor(am, script.log, rtc=rtc, is_async=is_async, start_id=start_id)
    new = accept_or_mismatch(acc, cur, ["go"], out, "second:" + tag, script.log)
    ctx.check(sm2.current_state.id == new, f"wrong-state:second:{tag}")
    # a sibling instance of the same class over an empty model, with the *other* start_value: its own activation
    del script.log[:]
    with ctx.notracing():
        m3 = type(model)()
        m3.state = None
    kw3 = {"rtc": rtc, "listeners": listeners}
    other_start = "a" if params["sv"] else "b"
    if not params["sv"]:
        kw3["start_value"] = vals["b"]
    script.sm = None  # callbacks of the sibling read *its* current state (through the injected machine)
    out = outcome_of(lambda: r["cls"](m3, **kw3), r["cls"])
    if out[0] != "ret":
        raise Mismatch(f"sibling-construction-raised:{tag}", f"{out!r}")
    sm3 = out[1]
    script.sm = sm3
    if is_async:
        out3 = outcome_of(lambda: sm3.activate_initial_state(), sm3)
        if out3[0] != "ret":
            raise Mismatch(f"sibling-activation-raised:{tag}", f"{out3!r}")
    acc = Acceptor(am, script.log, rtc=rtc, is_async=is_async, start_id=other_start)
    cur3 = accept_or_mismatch(acc, None, ["__initial__"], ("ret", ANY), "sibling:" + tag, script.log)
    if sm3.current_state.id != other_start or cur3 != other_start:
        raise Mismatch(f"sibling-started-in-wrong-state:{tag}", f"start_value={'absent' if params['sv'] else 'b'}: expected {other_start}, got {sm3.current_state.id}")
    ctx.cover("sibling-other-start-value")
    ctx.note({"stored": stored, "start_value": params["sv"], "history": n_hist, "final": new})
