#!/bin/bash
# usage: tools/run_all.sh [quick|thorough] [Cxx ...]  - run the claimed checks on /repo, validate evidence, summarise
tier="${1:-quick}"; shift
cd "$(cd "$(dirname "$0")/.." && pwd)"
props="$@"
if [ -z "$props" ]; then props=$(python3 -c "import json;print(' '.join(c['property_id'] for c in json.load(open('MANIFEST.json'))['checks']))"); fi
rc_all=0
for p in $props; do
  s=$(date +%s)
  out=$(./vf check $p --tier $tier 2>&1); rc=$?
  e=$(date +%s)
  echo "$out" | grep -E "^\[$p\]|^KNOWN-FINDING|^VIOLATION|^HARNESS-ERROR|^  kind=" | cut -c1-260
  v=$(python3-vt -c "
import json, jsonschema
try:
    jsonschema.validate(json.load(open('${VERIF_EVIDENCE_DIR:-evidence}/$p.json')), json.load(open('/root/.vp/EVIDENCE.schema.json'))); print('evidence-ok')
except Exception as ex: print('EVIDENCE-INVALID', str(ex)[:200])")
  echo "== $p rc=$rc $((e-s))s $v"
  [ $rc -ne 0 ] && rc_all=1
done
exit $rc_all
