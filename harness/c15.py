"""C15 - every declaration style of the same machine yields the same machine (SX, relational).

Real code under the tracer: send() and everything below it on BOTH machines of a pair, sm.states / events /
allowed_events.  The class statements of the renderings (State.to / from_ / itself / any, TransitionList.__or__,
Events.add, Event, the metaclass's add_from_attributes / _update_event_references, States.from_enum, inheritance)
are executed natively once per task - they take no symbolic input - and their *result* is what is compared.

Solver-enumerated structure: the pair of renderings (reference vs each style), pre-state, event (incl. an unknown id).
Solver variables: guard values (both machines of a pair are fed the same symbols) - so the two must select the same
transition for every guard valuation, and both must agree with the reference oracle.
"""

from __future__ import annotations

import enum

from vfw.ctx import Mismatch

PROPERTY = "C15"

# ------------------------------------------------------------------------------------------ abstract machine X
# states a(initial) b c d(final)
#  go   : a->b [cond g1] ; a->c ; b->c
#  back : b->a ; c->a [unless g2]
#  loop : b->b (self, external)
#  hop, skip : c->b   (one transition bound to two events)
#  halt : b->d [cond g1] (explicit, first) ; then from every non-final state -> d  (from_.any())
#  quit : from every non-final state -> d [unless g2]  (from_.any(unless=...)); hop/skip carry unless g2
AMX = {
    "states": ["a", "b", "c", "d"],
    "initial": "a",
    "final": ["d"],
    "events": ["go", "back", "loop", "hop", "skip", "halt", "quit"],
    "trans": {
        "a": [("go", "b", ["g1"], []), ("go", "c", [], []), ("halt", "d", [], []), ("quit", "d", [], ["g2"])],
        "b": [("go", "c", [], []), ("back", "a", [], []), ("loop", "b", [], []), ("halt", "d", ["g1"], []), ("halt", "d", [], []), ("quit", "d", [], ["g2"])],
        "c": [("back", "a", [], ["g2"]), ("hop", "b", [], ["g2"]), ("skip", "b", [], ["g2"]), ("halt", "d", [], []), ("quit", "d", [], ["g2"])],
        "d": [],
    },
}

TRACE = '''
def on_transition(self, source, target, event):
    self.seen.append((str(event), source.id, target.id))
def on_exit_state(self, state):
    self.seen.append(("exit", state.id))
def on_enter_state(self, state):
    self.seen.append(("enter", state.id))
'''

COMMON = '''
def g1(self):
    return self.vals["g1"]
def g2(self):
    return self.vals["g2"]
'''

RENDERINGS = {
    "reference": '''
a = State(initial=True); b = State(); c = State(); d = State(final=True)
go = a.to(b, cond="g1") | a.to(c) | b.to(c)
back = b.to(a) | c.to(a, unless="g2")
loop = b.to(b)
hop = c.to(b, unless="g2")
skip = hop
halt = b.to(d, cond="g1") | a.to(d) | b.to(d) | c.to(d)
quit = a.to(d, unless="g2") | b.to(d, unless="g2") | c.to(d, unless="g2")
''',
    "from_": '''
a = State(initial=True); b = State(); c = State(); d = State(final=True)
go = b.from_(a, cond="g1") | c.from_(a) | c.from_(b)
back = a.from_(b) | a.from_(c, unless="g2")
loop = b.from_(b)
hop = b.from_(c, unless="g2")
skip = hop
halt = d.from_(b, cond="g1") | d.from_(a) | d.from_(b) | d.from_(c)
quit = d.from_(a, b, c, unless="g2")
''',
    "multi": '''
a = State(initial=True); b = State(); c = State(); d = State(final=True)
go = a.to(b, cond="g1") | a.to(c) | b.to(c)
back = a.from_(b) | c.to(a, unless="g2")
loop = b.to.itself()
hop = c.to(b, unless="g2")
skip = hop
halt = b.to(d, cond="g1") | d.from_(a, b, c)
quit = d.from_(a, b, c, unless="g2")
''',
    "any": '''
a = State(initial=True); b = State(); c = State(); d = State(final=True)
go = a.to(b, cond="g1") | a.to(c) | b.to(c)
back = b.to(a) | c.to(a, unless="g2")
loop = b.to.itself()
hop = c.to(b, unless="g2")
skip = hop
halt = b.to(d, cond="g1") | d.from_.any()
quit = d.from_.any(unless="g2")
''',
    "event-param-str": '''
a = State(initial=True); b = State(); c = State(); d = State(final=True)
a.to(b, event="go", cond="g1"); a.to(c, event="go"); b.to(c, event="go")
b.to(a, event="back"); c.to(a, event="back", unless="g2")
b.to(b, event="loop")
c.to(b, event="hop skip", unless="g2")
b.to(d, event="halt", cond="g1"); a.to(d, event="halt"); b.to(d, event="halt"); c.to(d, event="halt")
a.to(d, event="quit", unless="g2"); b.to(d, event="quit", unless="g2"); c.to(d, event="quit", unless="g2")
''',
    "event-param-list": '''
a = State(initial=True); b = State(); c = State(); d = State(final=True)
go = a.to(b, cond="g1") | a.to(c) | b.to(c)
back = b.to(a) | c.to(a, unless="g2")
loop = b.to.itself()
c.to(b, event=["hop", "skip"], unless="g2")
halt = b.to(d, cond="g1") | a.to(d) | b.to(d) | c.to(d)
quit = d.from_.any(unless="g2")
''',
    "event-objects": '''
a = State(initial=True); b = State(); c = State(); d = State(final=True)
go = Event(name="Go"); back = Event(); loop = Event(); hop = Event(); skip = Event(); halt = Event()
a.to(b, event=go, cond="g1"); a.to(c, event=go); b.to(c, event=go)
b.to(a, event=back); c.to(a, event=back, unless="g2")
b.to(b, event=loop)
c.to(b, event=[hop, skip], unless="g2")
b.to(d, event=halt, cond="g1"); a.to(d, event=halt); b.to(d, event=halt); c.to(d, event=halt)
quit = Event()
d.from_(a, b, c, event=quit, unless="g2")
''',
    "event-wrapper": '''
a = State(initial=True); b = State(); c = State(); d = State(final=True)
go = Event(a.to(b, cond="g1") | a.to(c) | b.to(c), name="Go!")
back = Event(b.to(a) | c.to(a, unless="g2"))
loop = Event(b.to.itself())
hop = Event(c.to(b, unless="g2"))
skip = hop
halt = Event(b.to(d, cond="g1") | a.to(d) | b.to(d) | c.to(d), id="halt")
quit = Event(d.from_.any(unless="g2"), name="Quit")
''',
    "decorator": '''
a = State(initial=True); b = State(); c = State(); d = State(final=True)
@(a.to(b, cond="g1") | a.to(c) | b.to(c))
def go(self):
    self.seen.append(("fn", "go"))
@(b.to(a) | c.to(a, unless="g2"))
def back(self):
    self.seen.append(("fn", "back"))
loop = b.to.itself()
hop = c.to(b, unless="g2")
skip = hop
@(b.to(d, cond="g1") | a.to(d) | b.to(d) | c.to(d))
def halt(self):
    self.seen.append(("fn", "halt"))
quit = d.from_.any(unless="g2")
''',
    "or-association": '''
a = State(initial=True); b = State(); c = State(); d = State(final=True)
go = a.to(b, cond="g1") | (a.to(c) | b.to(c))
back = b.to(a)
back |= c.to(a, unless="g2")
loop = b.to(b)
hop = c.to(b, unless="g2")
skip = hop
halt = (b.to(d, cond="g1") | a.to(d)) | (b.to(d) | c.to(d))
quit = a.to(d, unless="g2") | (b.to(d, unless="g2") | c.to(d, unless="g2"))
''',
    "states-dict": '''
sts = States({"a": State(initial=True), "b": State(), "c": State(), "d": State(final=True)})
go = sts.a.to(sts.b, cond="g1") | sts.a.to(sts.c) | sts.b.to(sts.c)
back = sts.b.to(sts.a) | sts.c.to(sts.a, unless="g2")
loop = sts.b.to.itself()
hop = sts.c.to(sts.b, unless="g2")
skip = hop
halt = sts.b.to(sts.d, cond="g1") | sts.d.from_.any()
quit = sts.d.from_.any(unless="g2")
''',
    "states-dict-event-kw": '''
sts = States({"a": State(initial=True), "b": State(), "c": State(), "d": State(final=True)})
sts.a.to(sts.b, cond="g1", event="go"); sts.a.to(sts.c, event="go"); sts.b.to(sts.c, event="go")
sts.b.to(sts.a, event="back"); sts.c.to(sts.a, unless="g2", event="back")
sts.b.to.itself(event="loop")
sts.c.to(sts.b, unless="g2", event="hop skip")
sts.b.to(sts.d, cond="g1", event="halt"); sts.a.to(sts.d, event="halt"); sts.b.to(sts.d, event="halt"); sts.c.to(sts.d, event="halt")
sts.a.to(sts.d, unless="g2", event="quit"); sts.b.to(sts.d, unless="g2", event="quit"); sts.c.to(sts.d, unless="g2", event="quit")
''',
    "two-any-parts": '''
a = State(initial=True); b = State(); c = State(); d = State(final=True)
go = a.to(b, cond="g1") | a.to(c) | b.to(c)
back = b.to(a) | c.to(a, unless="g2")
loop = b.to(b)
hop = c.to(b, unless="g2")
skip = hop
halt = d.from_.any(cond="g1") | d.from_.any()
quit = d.from_.any(unless="g2")
''',
    "states-enum": '''
sts = States.from_enum(Letters, initial=Letters.a, final=Letters.d)
go = sts.a.to(sts.b, cond="g1") | sts.a.to(sts.c) | sts.b.to(sts.c)
back = sts.b.to(sts.a) | sts.c.to(sts.a, unless="g2")
loop = sts.b.to.itself()
hop = sts.c.to(sts.b, unless="g2")
skip = hop
halt = sts.b.to(sts.d, cond="g1") | sts.a.to(sts.d) | sts.b.to(sts.d) | sts.c.to(sts.d)
quit = sts.a.to(sts.d, unless="g2") | sts.b.to(sts.d, unless="g2") | sts.c.to(sts.d, unless="g2")
''',
}
RENDERINGS["guard-decorators"] = '''
a = State(initial=True); b = State(); c = State(); d = State(final=True)
_parts = [a.to(b), c.to(a), b.to(d)]
go = _parts[0] | a.to(c) | b.to(c)
back = b.to(a) | _parts[1]
loop = b.to.itself()
hop = Event(c.to(b), name="hop")
skip = hop
halt = _parts[2] | a.to(d) | b.to(d) | c.to(d)
quit = Event(d.from_(a, b, c), name="quit")
@_parts[0].cond
@_parts[2].cond
def g1(self):
    return self.vals["g1"]
@_parts[1].unless
@hop.unless
@quit.unless
def g2(self):
    return self.vals["g2"]
'''
RENDERINGS["states-enum-instance"] = RENDERINGS["states-enum"].replace("final=Letters.d)", "final=Letters.d, use_enum_instance=True)")
# an any() event declared above a States collection that holds some of the states it must cover
RENDERINGS["any-before-states-collection"] = '''
d = State(final=True)
quit = d.from_.any(unless="g2")
sts = States({"a": State(initial=True), "b": State(), "c": State()})
go = sts.a.to(sts.b, cond="g1") | sts.a.to(sts.c) | sts.b.to(sts.c)
back = sts.b.to(sts.a) | sts.c.to(sts.a, unless="g2")
loop = sts.b.to.itself()
hop = sts.c.to(sts.b, unless="g2")
skip = hop
halt = sts.b.to(d, cond="g1") | sts.a.to(d) | sts.b.to(d) | sts.c.to(d)
'''
# an any() event declared before one of the states it must cover
RENDERINGS["any-before-later-state"] = '''
a = State(initial=True); b = State(); d = State(final=True)
quit = d.from_.any(unless="g2")
c = State()
go = a.to(b, cond="g1") | a.to(c) | b.to(c)
back = b.to(a) | c.to(a, unless="g2")
loop = b.to.itself()
hop = c.to(b, unless="g2")
skip = hop
halt = b.to(d, cond="g1") | a.to(d) | b.to(d) | c.to(d)
'''
# one event id attached in two styles inside the same class body (event= on some transitions, attribute for others)
RENDERINGS["mixed-styles"] = '''
a = State(initial=True); b = State(); c = State(); d = State(final=True)
a.to(b, event="go", cond="g1")
go = a.to(c) | b.to(c)
b.to(a, event="back")
back = Event(c.to(a, unless="g2"))
loop = b.to.itself()
hop = c.to(b, unless="g2")
hop.add_event("skip")
b.to(d, event="halt", cond="g1")
halt = a.to(d) | b.to(d) | c.to(d)
@d.from_.any(unless="g2")
def quit(self):
    pass
'''
# inheritance: the base declares states and part of the events, the subclass the rest
INHERIT_BASE = '''
a = State(initial=True); b = State(); c = State(); d = State(final=True)
quit = d.from_.any(unless="g2")
go = a.to(b, cond="g1") | a.to(c) | b.to(c)
back = b.to(a) | c.to(a, unless="g2")
halt = b.to(d, cond="g1") | a.to(d) | b.to(d) | c.to(d)
'''
INHERIT_SUB = '''
loop = Base.b.to.itself()
hop = Base.c.to(Base.b, unless="g2")
skip = hop
'''
# the subclass names its transitions (on inherited states) only through the event= keyword
INHERIT_SUB_KW = '''
Base.b.to.itself(event="loop")
Base.c.to(Base.b, unless="g2", event=["hop", "skip"])
'''


class Letters(enum.IntEnum):
    a = 1
    b = 2
    c = 3
    d = 0  # the final member is falsy
    done = 0  # an alias of d: not a state of its own


_BUILT = {}


def build(style):
    """Execute the class statement of one rendering (natively; it has no symbolic input)."""
    if style in _BUILT:
        return _BUILT[style]
    from statemachine import State, StateMachine
    from statemachine.event import Event
    from statemachine.states import States

    ns = {"State": State, "StateMachine": StateMachine, "States": States, "Event": Event, "Letters": Letters}
    if style in ("inheritance", "inheritance-event-kw"):
        body = "\n".join("    " + ln for ln in (INHERIT_BASE + COMMON + TRACE).strip().splitlines())
        exec(f"class Base(StateMachine):\n{body}\n", ns)  # noqa: S102 - our own source
        sub = "\n".join("    " + ln for ln in (INHERIT_SUB if style == "inheritance" else INHERIT_SUB_KW).strip().splitlines())
        exec(f"class M(Base):\n{sub}\n", ns)  # noqa: S102
    else:
        common = "" if style == "guard-decorators" else COMMON
        body = "\n".join("    " + ln for ln in (RENDERINGS[style] + common + TRACE).strip().splitlines())
        exec(f"class M(StateMachine):\n{body}\n", ns)  # noqa: S102
    cls = ns["M"]
    for name in ("g1", "g2"):
        getattr(cls, name).__qualname__ = f"C15.{style}.{name}"
    _BUILT[style] = cls
    return cls


STYLES = [s for s in RENDERINGS if s != "reference"] + ["inheritance", "inheritance-event-kw"]


def tasks(tier):
    out = []
    for style in STYLES:
        for s0 in range(4):
            out.append({"style": style, "s0": s0})
    out.append({"style": "reference", "s0": None, "static_only": True})
    return out


BUDGET = {
    "quick": {"max_secs": 600, "task_secs": 400, "path_secs": 30},
    "thorough": {"max_secs": 3600, "task_secs": 3000, "path_secs": 60},
}
BOUNDS = {
    "quick": "one abstract machine (4 states incl. a final one; 6 events; two candidates for (a,go) and (b,halt), cond and unless guards, a self transition, one "
    "transition bound to two events, `halt` from every non-final state next to an explicit guarded transition to the same target) rendered in 21 styles (a States({...}) collection whose transitions are named only through event=; a subclass naming transitions on inherited states only through event=; one event made of two from_.any() parts; an any() event above a States({...}) collection; the enum's final member has value 0; States.from_enum with and without use_enum_instance; an any() event declared above a state it must cover; one event id attached in two styles inside one class body; on_transition / on_exit_state traces compared as well; (guards also attached with @transition.cond / @event.unless decorators; the enum has an alias; a from_.any(unless=...) event): a.to(b), "
    "b.from_(a), multi-source from_(a,b,c) + to.itself(), from_.any(), event='id' / 'id id' / [ids] on the transition, id-less Event() objects passed by reference "
    "(single and in a list), Event(transitions, name=/id=), decorator-declared events, both associations of | and |=, States({...}), States.from_enum, base class + "
    "subclass; each compared with the reference rendering on states, events, allowed_events in every state, and one step from every state on every event and an "
    "unknown id with symbolic guard values (same symbols to both machines), plus the reference oracle as third voice.",
    "thorough": "same (the space is exhausted at quick).",
}
OUTSIDE = "other abstract machines; callbacks attached through the styles (C02/C12); state values under from_enum(use_enum_instance=True)"
OBLIGATIONS = ["pair-agrees", "second-candidate", "any-expansion", "multi-event-second-id", "unknown-event", "static-equal"]
ASSUMPTIONS = [
    "class statements of the renderings run natively (they take no symbolic input); what is compared is the machines they produce",
    "allowed_events and events are compared as sets (the order tolerance of C13 applies); states are compared by id, initial/final flags and order",
    "a decorator-declared event adds its (empty) function as an `on` action; results are therefore compared as None-or-not only",
]


def static_view(cls):
    return {
        "states": [(s.id, bool(s.initial), bool(s.final)) for s in cls.states],
        "events": sorted(str(e) for e in cls.events),
    }


def run(ctx, params):
    style = params["style"]
    with ctx.notracing():
        ref = build("reference")
        oth = build(style)
    tag = style
    if params.get("static_only"):
        with ctx.notracing():
            views = {s: static_view(build(s)) for s in STYLES}
            base = static_view(ref)
        for s, v in views.items():
            if s in ("any-before-later-state", "any-before-states-collection"):
                v = dict(v, states=sorted(v["states"]))
                if v != dict(base, states=sorted(base["states"])):
                    raise Mismatch(f"static-structure-differs:{s}", f"reference {base} vs {s} {v}")
                continue
            if v != base:
                raise Mismatch(f"static-structure-differs:{s}", f"reference {base} vs {s} {v}")
        if base["states"] != [(s, s == AMX["initial"], s in AMX["final"]) for s in AMX["states"]] or base["events"] != sorted(AMX["events"]):
            raise Mismatch("static-structure-differs:reference", f"{base}")
        ctx.cover("static-equal")
        return
    cur = AMX["states"][params["s0"]]
    events = AMX["events"] + ["nope"]
    ev = events[ctx.choose(len(events), "ev")]
    vals = {"g1": ctx.sym_bool("g1"), "g2": ctx.sym_bool("g2")}
    res = []
    for cls in (ref, oth):
        with ctx.notracing():
            cls.seen = []
            sm = cls()
            sm.seen = []
            sm.vals = vals
            if cls is ref or style not in ("states-enum", "states-enum-instance"):
                sm.current_state_value = cur
            else:
                sm.current_state_value = Letters[cur].value if style == "states-enum" else Letters[cur]
        allowed = sorted({str(e) for e in sm.allowed_events})
        try:
            r = sm.send(ev)
            out = ("ret", r is None)
        except sm.TransitionNotAllowed as e:
            out = ("tna", str(e.event))
        res.append((out, sm.current_state.id, allowed, list(sm.seen)))
    (o0, s0, a0, t0), (o1, s1, a1, t1) = res
    exp_allowed = sorted({e for e, _t, _c, _u in AMX["trans"][cur]})
    if a0 != exp_allowed or a1 != exp_allowed:
        raise Mismatch(f"allowed-events-differ:{tag}", f"state {cur}: reference {a0}, {style} {a1}, abstract machine {exp_allowed}")
    # oracle
    exp_state, exp_kind, idx = cur, "tna", None
    for i, (e, tgt, cond, unless) in enumerate([t for t in AMX["trans"][cur] if t[0] == ev]):
        if all(vals[c] for c in cond) and not any(vals[u] for u in unless):
            exp_state, exp_kind, idx = tgt, "ret", i
            break
    if (o1[0], s1) != (exp_kind, exp_state):
        raise Mismatch(f"rendering-behaves-differently:{tag}", f"from {cur} on {ev}: abstract machine says {exp_kind}/{exp_state}, {style} gave {o1[0]}/{s1} (reference rendering {o0[0]}/{s0})")
    if (o0[0], s0) != (exp_kind, exp_state):
        raise Mismatch("rendering-behaves-differently:reference", f"from {cur} on {ev}: abstract machine says {exp_kind}/{exp_state}, reference gave {o0[0]}/{s0}")
    if style == "decorator":
        # the decorated function is the event's `on` action: it runs once, after the source's exit and before the target's enter
        fns = [k for k, x in enumerate(t1) if x[0] == "fn"]
        want_fn = 1 if (exp_kind == "ret" and ev in ("go", "back", "halt")) else 0
        if len(fns) != want_fn or any(t1[k] != ("fn", ev) for k in fns):
            raise Mismatch(f"decorated-event-function-miscalled:{tag}", f"from {cur} on {ev}: trace {t1}")
        for k in fns:
            exits = [j for j, x in enumerate(t1) if x[0] == "exit"]
            enters = [j for j, x in enumerate(t1) if x[0] == "enter"]
            if any(j > k for j in exits) or any(j < k for j in enters):
                raise Mismatch(f"decorated-event-function-out-of-order:{tag}", f"from {cur} on {ev}: the function given with @transitions is the event's `on` action (after exit, before enter); trace {t1}")
        t1 = [x for x in t1 if x[0] != "fn"]
    if t0 != t1:
        raise Mismatch(f"callback-trace-differs:{tag}", f"from {cur} on {ev}: reference ran {t0}, {style} ran {t1} (source/target/exit state seen by the callbacks)")
    if o0 != o1 and not (style in ("decorator", "mixed-styles")):
        raise Mismatch(f"results-differ:{tag}", f"from {cur} on {ev}: {o0} vs {o1}")
    ctx.cover("pair-agrees")
    if idx is not None and idx > 0:
        ctx.cover("second-candidate")
    if ev == "halt" and exp_kind == "ret":
        ctx.cover("any-expansion")
    if ev == "skip" and exp_kind == "ret":
        ctx.cover("multi-event-second-id")
    if ev == "nope":
        ctx.cover("unknown-event")
    ctx.note({"style": style, "pre": cur, "event": ev, "outcome": exp_kind, "post": exp_state})
