"""Minimal driver on top of crosshair.explore_paths-like loop."""
import sys, time, inspect
from inspect import Signature, BoundArguments
from crosshair.core import (explore_paths, deep_realize, ExceptionFilter, gen_args, Patched,
    StateSpaceContext, CallAnalysis, VerificationStatus, IgnoreAttempt, UnexploredPath, NotDeterministic)
from crosshair.core_and_libs import standalone_statespace  # ensures libs registered
from crosshair.options import AnalysisOptions, DEFAULT_OPTIONS, AnalysisOptionSet
from crosshair.statespace import RootNode, StateSpace
from crosshair.tracers import COMPOSITE_TRACER, NoTracing, ResumedTracing
from crosshair.condition_parser import condition_parser
from crosshair.copyext import deepcopyext, CopyMode
from time import process_time

def run(fn, timeout=60.0, per_path_timeout=10.0, max_iter=10**9):
    sig = inspect.signature(fn)
    options = DEFAULT_OPTIONS.overlay(AnalysisOptionSet(per_condition_timeout=timeout, per_path_timeout=per_path_timeout)).to_options() if hasattr(DEFAULT_OPTIONS.overlay(AnalysisOptionSet()), 'to_options') else None
    root = RootNode()
    stats = dict(paths=0, ok=0, ignored=0, unknown=0, fail=[], exhausted=False, exc=[])
    t0 = process_time()
    for i in range(max_iter):
        st = process_time()
        if st - t0 > timeout: break
        space = StateSpace(execution_deadline=st + per_path_timeout, model_check_timeout=per_path_timeout/2, search_root=root)
        status = None
        with condition_parser([]), Patched(), COMPOSITE_TRACER, NoTracing(), StateSpaceContext(space):
            try:
                pre_args = gen_args(sig)
                args = deepcopyext(pre_args, CopyMode.REGULAR, {})
                ret = None
                with ExceptionFilter() as ef, ResumedTracing():
                    ret = fn(*args.args, **args.kwargs)
                if ef.user_exc:
                    if isinstance(ef.user_exc[0], NotDeterministic): raise NotDeterministic
                    with ResumedTracing():
                        stats['exc'].append((deep_realize(pre_args).arguments, repr(ef.user_exc[0])))
                    status = VerificationStatus.CONFIRMED
                elif ef.ignore:
                    status = None; stats['ignored'] += 1
                else:
                    with ResumedTracing():
                        r = deep_realize(ret)
                        if r is not True:
                            stats['fail'].append((deep_realize(pre_args).arguments, r))
                    status = VerificationStatus.CONFIRMED
                    stats['ok'] += 1
            except IgnoreAttempt:
                status = None; stats['ignored'] += 1
            except UnexploredPath as e:
                status = VerificationStatus.UNKNOWN; stats['unknown'] += 1
        stats['paths'] += 1
        _a, exhausted = space.bubble_status(CallAnalysis(status))
        if stats['fail'] or stats['exc']: break
        if exhausted:
            stats['exhausted'] = True; stats['top'] = str(_a.verification_status) if _a else None
            break
    stats['cpu_s'] = round(process_time() - t0, 2)
    return stats
