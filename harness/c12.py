"""C12 - listeners and the model are first-class callback providers, attached once (SX).

Real code under the tracer: StateMachine.__init__/_register_callbacks (machine, model and constructor listeners),
add_listener/_add_listener (late listeners, SPECS_SAFE), Listeners.resolve/build/search_name/_take_callback,
CallbacksExecutor.add (de-duplication by key), and the engine below send().

Solver-enumerated structure: which objects provide each of four features (a guard name, a generic convention
callback, an inline action name, an event-specific convention callback) out of {machine, model, constructor
listener, late listener}; when in a 3-event history the late listener is attached and how often; a second machine
instance of the same class with a listener of its own.  Solver variables: the guard value on every provider.
"""

from __future__ import annotations

import json

import copy

from vfw.ctx import Mismatch
from vfw.machines import render
from vfw.scenario import ANY, Acceptor, Script, accept_or_mismatch, never_started, outcome_of

PROPERTY = "C12"

# provider menus: every feature needs a construction-time provider when it is referenced by name in the definition
MENUS = [
    ["machine"],
    ["model"],
    ["listener0"],
    ["machine", "listener1"],
    ["model", "listener0", "listener1"],
    ["listener0", "listener1"],
    ["machine", "model", "listener0", "listener1"],
]
CONV_MENUS = MENUS + [["listener1"], []]  # convention names may live on the late listener only, or nowhere


def base_am(with_flag, expr=False):
    am = _base_am(with_flag)
    if expr:
        # the (b, go) guard is a boolean expression over two names that live on the same providers
        for t in am["transitions"]:
            if t.get("cond") == ["ok1"]:
                t["cond"] = ["ok1 and ok2"]
    return am


def _base_am(with_flag):
    return {
        "states": [{"id": "a", "initial": True}, {"id": "b"}, {"id": "c"}],
        "transitions": ([{"src": "a", "tgt": "a", "events": ["go"], "cond": ["flag"], "internal": True}] if with_flag else []) + [
            {"src": "a", "tgt": "b", "events": ["go"], "on": ["act"]},
            {"src": "b", "tgt": "c", "events": ["go"], "cond": ["ok1"]},
            {"src": "b", "tgt": "b", "events": ["go"], "internal": True},
            {"src": "c", "tgt": "a", "events": ["go"], "unless": ["ok1"]},
            {"src": "c", "tgt": "c", "events": ["go"]},
        ],
    }


def tasks(tier):
    quick = tier == "quick"
    out = []
    for late_kind in ("sync", "async-late"):
        for g in range(len(MENUS)):
            for a in range(len(MENUS)):
                if quick and a not in (0, 3):
                    continue
                if late_kind == "async-late" and (g not in (0, 3) if quick else (g not in (0, 3, 4, 6) or a not in (0, 3))):
                    continue
                if not quick and late_kind == "sync" and a not in (0, 3, 4, 6):
                    continue
                base = {"kind": "names", "guard_menu": g, "act_menu": a, "late_kind": late_kind, "quick": quick, "equal": late_kind == "sync" and (g + a) % 2 == 1,
                        "private": late_kind == "sync" and g % 2 == 0}
                if quick and late_kind == "sync" and g in (4, 6):
                    for em in range(3):
                        out.append(dict(base, enter_menu=em))
                else:
                    out.append(base)
    for g in ((3,) if quick else (3, 4, 6)):
        out.append({"kind": "names", "guard_menu": g, "act_menu": 0, "late_kind": "sync", "quick": quick, "equal": False, "expr": True})
    out.append({"kind": "per-instance", "quick": quick})
    for fm in range(4):
        for equal in (False, True):
            out.append({"kind": "attr", "guard_menu": 0, "act_menu": 0, "late_kind": "sync", "quick": quick, "equal": equal, "flag_menu": fm, "falsy": fm % 2 == 1})
    return out


BUDGET = {
    "quick": {"max_secs": 600, "task_secs": 400, "path_secs": 30},
    "thorough": {"max_secs": 6000, "task_secs": 3000, "path_secs": 60},
}
BOUNDS = {
    "quick": "3-state ring driven by 3 consecutive `go` events; the guard name `ok1` and the inline action `act` provided by each of 7 (2 for act) provider sets "
    "over {machine, model, constructor listener, late listener}; `on_enter_state` and `after_go` provided by 3 sets (machine; model + both listeners; late listener only); the "
    "late listener attached before event 0, 1 or 2, once, twice in one call, or again before the next event; a second instance of the class with its own "
    "listener must stay silent; a listener added to a shallow copy must not reach a later deep copy of the original; the guard also written as the expression 'ok1 and ok2'; guard values symbolic per provider; in half of the sync tasks the guard and action names start with an underscore (`_ok1`, `_act`); a separate scenario: 2-3 instances of one class whose constructor listener / model has plain or coroutine callbacks, in 4 creation orders, each driven afterwards; in half of the tasks the model class derives from statemachine.model.Model; a guard given as a plain data attribute (None at attachment, re-assigned before each event) on model / listeners; a variant whose listeners all compare equal and are falsy (define __len__ returning 0); variant in which the late listener's methods are coroutine functions on an otherwise sync machine.",
    "thorough": "7 guard provider sets x 4 action provider sets (sync late listener), 4 x 2 (async late listener), 4 x 4 convention-provider sets (incl. 'provided by nobody'), every attach time x repetition.",
}
OUTSIDE = "callables and properties passed by reference (late listeners resolve names only, documented); more than one late listener"
OBLIGATIONS = ["providers-per-instance", "shallow-copy-listener-isolated", "attribute-guard-blocked", "attribute-guard-passed", "late-listener-called", "guard-conjunction-blocked", "guard-on-late-listener", "reattached", "second-instance-silent", "model-provider"]
ASSUMPTIONS = [
    "every provider of a name is called once per phase; the value of a guard name provided by several objects is the conjunction of their values (cond wants it truthy, unless wants it falsy); any evaluation order and short-circuit is accepted",
    "a late listener takes part from the first event after add_listener returns",
]


def run_providers_per_instance(ctx, params):
    """Instances of ONE machine class whose constructor listeners / models differ in kind (plain vs coroutine
    callbacks, value-equal but distinct objects): each instance serves its own providers, in every creation order."""
    from statemachine import State, StateMachine

    with ctx.notracing():
        class G(StateMachine):
            a = State(initial=True)
            b = State()
            go = a.to(b, cond="allow") | a.to(a)
            back = b.to(a)

        class Plain:
            def __init__(self, v):
                self.state = None
                self.v = v
                self.seen = []

            def allow(self):
                self.seen.append("allow")
                return self.v

            def after_go(self, source, target):
                self.seen.append(("after_go", source.id, target.id))

        class Coro:
            def __init__(self, v):
                self.state = None
                self.v = v
                self.seen = []

            async def allow(self):
                self.seen.append("allow")
                return self.v

            async def after_go(self, source, target):
                self.seen.append(("after_go", source.id, target.id))

    via = ["listener", "model"][ctx.choose(2, "via")]
    order = [["plain", "coro"], ["coro", "plain"], ["plain", "coro", "plain"], ["coro", "coro", "plain"]][ctx.choose(4, "order")]
    made = []
    for i, kind in enumerate(order):
        v = ctx.sym_bool(f"allow{i}")
        prov = (Plain if kind == "plain" else Coro)(v)
        sm = G(listeners=[prov]) if via == "listener" else G(prov)
        made.append((kind, prov, sm, v))
    # drive them in reverse order of creation
    for kind, prov, sm, v in reversed(made):
        try:
            r = sm.send("go")
        except Exception as e:  # noqa: BLE001
            if type(e).__name__ == "NotDeterministic":
                raise
            raise Mismatch(f"instance-broken-by-sibling-providers:{via}:{kind}", f"creation order {order}: send raised {type(e).__name__}: {e}")
        want = "b" if v else "a"
        got = sm.current_state.id
        exp_seen = ["allow", ("after_go", "a", want)]
        if got != want or prov.seen != exp_seen or r is not None:
            raise Mismatch(f"instance-broken-by-sibling-providers:{via}:{kind}", f"creation order {order}: the {kind} provider's guard returned {bool(v)}: state {got} (expected {want}), "
                           f"its callbacks ran {prov.seen} (expected {exp_seen}), send returned {r!r}")
    ctx.cover("providers-per-instance")


def run(ctx, params):
    if params.get("kind") == "per-instance":
        return run_providers_per_instance(ctx, params)
    from statemachine.exceptions import InvalidDefinition

    quick = params["quick"]
    with_flag = params["kind"] == "attr"
    expr = bool(params.get("expr"))
    # half of the plain-name tasks use underscore-prefixed names: `cond="_ok1"`, `on="_act"` are ordinary attribute names
    private = bool(params.get("private"))
    G1, G2, ACT = ("_ok1", "_ok2", "_act") if private else ("ok1", "ok2", "act")
    am = base_am(with_flag, expr)
    if private:
        am = json.loads(json.dumps(am).replace('"ok1"', '"_ok1"').replace('"act"', '"_act"').replace("ok1 and ok2", "_ok1 and _ok2"))
    conv_pool = [CONV_MENUS[i] for i in ((0, 4, 7, 8) if not quick else (0, 4, 7))]
    if expr:
        conv_pool = [CONV_MENUS[0]]
    if params.get("enter_menu") is not None:
        enter_prov = conv_pool[params["enter_menu"]]  # the big provider sets are split over tasks by this choice
    else:
        enter_prov = conv_pool[ctx.choose(len(conv_pool), "enter_menu")] if not with_flag else []
    if with_flag:
        after_prov = []
    elif quick:
        after_prov = conv_pool[(conv_pool.index(enter_prov) + 1) % len(conv_pool)]
    else:
        after_prov = conv_pool[ctx.choose(len(conv_pool), "after_menu")]
    feats = {G1: MENUS[params["guard_menu"]], ACT: MENUS[params["act_menu"]], "on_enter_state": enter_prov, "after_go": after_prov}
    methods = {"machine": [], "model": [], "listener0": [], "listener1": [], "listener2": ["on_enter_state", "after_go", ACT, G1]}
    for name, provs in feats.items():
        for p in provs:
            methods[p].append(name)
            if expr and name == G1:
                methods[p].append(G2)
    if expr:
        methods["listener2"].append(G2)
    am["methods"] = methods
    if (params["guard_menu"] + params["act_menu"]) % 2 == 0:
        am["model_base"] = "library"  # class MyModel(statemachine.model.Model) with the callbacks on it
    late_async = params["late_kind"] == "async-late"
    am["async"] = [["listener1", n] for n in methods["listener1"]] if late_async else []
    if expr:
        attach_at, attach_mode = [(0, "once"), (1, "once")][ctx.choose(2, "attach")]
    elif quick:
        attach_at, attach_mode = [(0, "once"), (1, "once"), (1, "twice-in-one-call"), (1, "again-later"), (2, "once")][ctx.choose(5, "attach")]
    else:
        attach_at = ctx.choose(3, "attach_at")
        attach_mode = ["once", "twice-in-one-call", "again-later"][ctx.choose(3, "attach_mode")]
    # `flag` is a plain data attribute (None when the provider is attached, assigned before every event)
    flag_provs = [["model"], ["listener0"], ["listener0", "listener1"], ["model", "listener1"]][params["flag_menu"]] if with_flag else []
    with ctx.notracing():
        box = [None]
        r = render(am, box, class_name="C12M")
        script = Script(ctx, am, budget=0, values="int")
        box[0] = script
        if params.get("equal"):
            for c in r["listener_classes"]:
                c.__eq__ = lambda self, other: type(other).__name__.startswith("Listener")
                c.__hash__ = lambda self: 7
        if params.get("equal") or params.get("falsy"):
            for c in r["listener_classes"]:
                c.__len__ = lambda self: 0  # an empty audit trail / a quota at 0: falsy objects are still listeners
        model = r["model_cls"]()
        l0, l1, l2 = (c() for c in r["listener_classes"])
        objs = {"model": model, "listener0": l0, "listener1": l1}
        for p in flag_provs:
            objs[p].flag = None
        if with_flag:
            l2.flag = None
        script.muted = True
    tag = f"late={params['late_kind']}"
    try:
        with ctx.notracing():
            sm = r["cls"](model, listeners=[l0])
            other_model = r["model_cls"]()
            other = r["cls"](other_model, listeners=[l2])
    except InvalidDefinition as e:
        raise Mismatch(f"valid-providers-rejected:{tag}", f"{feats}: {e}")
    script.muted = False
    script.sm = sm
    attached = False
    cur = "a"
    with ctx.notracing():
        eff = copy.deepcopy(am)
        eff["methods"] = {p: list(v) for p, v in methods.items() if p in ("machine", "model", "listener0")}
        for p in flag_provs:
            if p != "listener1":
                eff["methods"][p].append("flag")
        eff2 = copy.deepcopy(am)
        eff2["methods"] = {p: list(v) for p, v in methods.items() if p in ("machine", "model")}
        eff2["methods"]["listener2"] = list(methods["listener2"]) + (["flag"] if with_flag else [])

    is_async_engine = False
    for k in range(3):
        if k == attach_at or (attach_mode == "again-later" and k == attach_at + 1):
            if attach_mode == "twice-in-one-call" and not attached:
                sm.add_listener(l1, l1)
            elif attach_at == 2:
                import warnings as _w

                with _w.catch_warnings():
                    _w.simplefilter("ignore")
                    sm.add_observer(l1)  # the deprecated alias must behave like add_listener
            else:
                sm.add_listener(l1)
            if attached:
                ctx.cover("reattached")
            if attach_mode == "twice-in-one-call":
                ctx.cover("reattached")
            attached = True
            eff["methods"]["listener1"] = list(methods["listener1"]) + (["flag"] if "listener1" in flag_provs else [])
        del script.log[:]
        forced = {}
        if cur == "a" and with_flag:
            for p in flag_provs:
                v = ctx.sym_bool(f"flag.{p}@{k}")
                v = True if v else False
                objs[p].flag = v
                forced[(p, "flag")] = v
        out = outcome_of(lambda: sm.send("go"), sm)
        acc = Acceptor(eff, script.log, rtc=True, is_async=is_async_engine)
        acc.forced_reads = forced
        shape = "late-async-listener-on-sync-machine" if late_async and attached and methods["listener1"] else "sync"
        try:
            new = accept_or_mismatch(acc, cur, ["go"], out, f"{shape}", script.log)
            if sm.current_state.id != new:
                # the log was acceptable but the machine ended elsewhere (possible when the transitions involved have no
                # callbacks at all): judged like any other mismatch, i.e. it goes through the diagnoses below first
                raise Mismatch(f"wrong-state:{shape}", f"expected {new}, got {sm.current_state.id}")
        except Mismatch as mm:
            if late_async and attached and methods["listener1"]:
                # does the log fit "the late listener's coroutine callbacks are called but never awaited" - i.e. its actions
                # never run and its guard value is a (truthy) coroutine object?
                with ctx.notracing():
                    alt_am = copy.deepcopy(eff)
                    alt_am["methods"]["listener1"] = [n for n in methods["listener1"] if n == G1]
                alt = Acceptor(alt_am, script.log, rtc=True, is_async=False)
                alt.forced_reads = dict(forced)
                alt.forced_reads[("listener1", G1)] = True  # a coroutine object is truthy
                alt.unless_anyfalsy_group = {p for p in feats[G1] if p != "listener1"}
                try:
                    alt_new = alt.call(cur, ["go"], ("ret", ANY) if out[0] == "ret" else out)  # un-awaited coroutines may sit in the result
                    fits = alt_new == sm.current_state.id
                except Exception:
                    fits = False
                if fits:
                    raise Mismatch(
                        "late-async-listener-on-sync-machine:coroutine-never-awaited",
                        f"coroutine methods {methods['listener1']} of the listener attached with add_listener() are called but never awaited ({mm.kind}: {mm.msg[:160]})",
                    )
            ctor_group = [p for p in feats[G1] if p != "listener1"]
            if cur == "c" and attached and "listener1" in feats[G1]:
                # does the log fit "the late listener's value of an `unless` name is judged on its own"?
                alt = Acceptor(eff, script.log, rtc=True, is_async=is_async_engine)
                alt.forced_reads = dict(forced)
                alt.unless_anyfalsy_group = set(ctor_group)
                try:
                    alt_new = alt.call(cur, ["go"], out)
                    fits = alt_new == sm.current_state.id
                except Exception:
                    fits = False
                if fits:
                    raise Mismatch(
                        "unless-name-on-late-listener-judged-separately",
                        f"`unless=ok1` with the name on {feats[G1]}: the name is not truthy on every provider, yet c->a was blocked because the late listener's own value is truthy ({mm.msg[:160]})",
                    )
            raise
        for rec in script.log:
            if rec[0] == "cb":
                if rec[4]["kwargs"].get("machine") is not sm:
                    raise Mismatch("foreign-machine-injected", f"{rec[2]}.{rec[3]} received another machine instance")
                if rec[2] == "listener2":
                    raise Mismatch("listener-of-another-instance-called", f"{rec[3]} of the second instance's listener ran while driving the first")
                if rec[2] == "listener1":
                    ctx.cover("late-listener-called")
                    if rec[3] == G1:
                        ctx.cover("guard-on-late-listener")
                if rec[2] == "model":
                    ctx.cover("model-provider")
        if any(ti in ((3, 5) if with_flag else (2, 4)) for _e, ti, _s, _t in acc.fired) and len(feats[G1]) > 1:
            ctx.cover("guard-conjunction-blocked")
        if cur == "a" and with_flag:
            ctx.cover("attribute-guard-passed" if any(ti == 0 for _e, ti, _s, _t in acc.fired) else "attribute-guard-blocked")
        lost = never_started(script)
        if lost:
            if all(p == "listener1" for p, _n in lost) and late_async:
                raise Mismatch("late-async-listener-on-sync-machine:coroutine-never-awaited", f"coroutine callbacks {lost} of the late listener were called but never awaited")
            raise Mismatch(f"coroutine-never-awaited:{shape}", f"{lost}")
        cur = new
    ctx.cover("second-instance-silent")
    if params["kind"] == "attr":
        # a shallow copy that gets a listener of its own must not leak it into later copies of the original
        import copy as _copy

        with ctx.notracing():
            lx = r["listener_classes"][2]()
            if with_flag:
                lx.flag = None
        shallow = _copy.copy(sm)
        shallow.add_listener(lx)
        clone = _copy.deepcopy(sm)
        del script.log[:]
        script.sm = clone
        if with_flag:
            for p_ in flag_provs:
                pass
        try:
            clone.send("go")
        except clone.TransitionNotAllowed:
            pass
        leaked = [rec for rec in script.log if rec[0] == "cb" and rec[2] == "listener2"]
        if leaked:
            raise Mismatch("listener-of-a-shallow-copy-leaked-into-a-later-copy", f"copy.copy(sm).add_listener(L); copy.deepcopy(sm) -> the clone calls L: {[(x[2], x[3]) for x in leaked]}")
        ctx.cover("shallow-copy-listener-isolated")
    # the second instance is alive and independent: one event on it calls only its own providers
    del script.log[:]
    script.sm = other
    out = outcome_of(lambda: other.send("go"), other)
    acc = Acceptor(eff2, script.log, rtc=True, is_async=False)
    acc.forced_reads = {("listener2", "flag"): False}
    accept_or_mismatch(acc, "a", ["go"], out, "second-instance", script.log)
    ctx.note({"features": feats, "attach_at": attach_at, "mode": attach_mode, "final": cur})
