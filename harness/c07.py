"""C07 - callbacks receive exactly the parameters they declare (SX).

Real code under the tracer: SignatureAdapter.from_callable / bind_expected, dispatcher.callable_method's adapter,
and end-to-end Event.__call__ (reserved-name filter), EventData.extended_kwargs, _activate, CallbackWrapper.

Solver-enumerated structure: the callback's signature (every legal ordering of positional-only,
positional-or-keyword, *args, keyword-only, **kwargs parameters, each with/without default, names drawn from a
pool mixing user names and reserved built-in names), callable kind, the number of positional event arguments and
which names are passed as event keywords.  Solver variables: every argument value (one path covers all values:
the binding must be value-independent, and each parameter must receive *that very object*).
"""

from __future__ import annotations

import functools
import itertools

from vfw.ctx import Mismatch

PROPERTY = "C07"
RESERVED = ["event_data", "machine", "event", "model", "transition", "state", "source", "target"]
_SENT = [f"<default{i}>" for i in range(8)]


def gen_signatures(max_named, name_orders):
    """All legal signatures with at most `max_named` named parameters."""
    out = []
    for n_po, n_pk, va, n_ko, vk in itertools.product((0, 1), (0, 1, 2), (0, 1), (0, 1, 2), (0, 1)):
        named = n_po + n_pk + n_ko
        if named > max_named or (named == 0 and not va and not vk):
            continue
        npos = n_po + n_pk
        for d_pos in range(npos + 1):  # number of trailing positional parameters that have defaults
            for ko_defaults in itertools.product((0, 1), repeat=n_ko):
                for order in name_orders:
                    names = list(order)
                    params = []
                    for i in range(npos):
                        kind = "po" if i < n_po else "pk"
                        params.append((kind, names.pop(0), i >= npos - d_pos))
                    if va:
                        params.append(("va", "args", False))
                    for j in range(n_ko):
                        params.append(("ko", names.pop(0), bool(ko_defaults[j])))
                    if vk:
                        params.append(("vk", "kw", False))
                    out.append(tuple(params))
    return out


def sig_text(params, with_self=False):
    parts = ["self"] if with_self else []
    seen_slash = False
    for i, (kind, name, dflt) in enumerate(params):
        if kind != "po" and not seen_slash and any(p[0] == "po" for p in params):
            parts.append("/")
            seen_slash = True
        if kind == "ko" and not any(p[0] == "va" for p in params) and "*" not in parts:
            parts.append("*")
        d = f"=_SENT[{i}]" if dflt else ""
        if kind == "va":
            parts.append("*args")
        elif kind == "vk":
            parts.append("**kw")
        else:
            parts.append(f"{name}{d}")
    if any(p[0] == "po" for p in params) and not seen_slash:
        parts.append("/")
    return ", ".join(parts)


_FN_CACHE = {}


def make_callable(params, kind, tag):
    """kind: function | method | partial | coroutine. Returns (callable, preset) - preset = kwargs fixed by a partial."""
    key = (params, kind, tag)
    if key in _FN_CACHE:
        return _FN_CACHE[key]
    body_items = []
    for k, name, _d in params:
        if k == "va":
            body_items.append('"*": args')
        elif k == "vk":
            body_items.append('"**": kw')
        else:
            body_items.append(f'"{name}": {name}')
    body = "{" + ", ".join(body_items) + "}"
    uniq = f"cb_{tag}_{abs(hash((params, kind))) % 10**10}"
    with_self = kind == "method"
    is_async = kind == "coroutine"
    src = f"{'async ' if is_async else ''}def {uniq}({sig_text(params, with_self)}):\n    return {body}\n"
    ns = {"_SENT": _SENT}
    exec(compile(src, f"<c07:{uniq}>", "exec"), ns)  # noqa: S102 - our own generated source
    fn = ns[uniq]
    preset = {}
    if kind == "method":
        holder = type(f"H_{uniq}", (), {uniq: fn})()
        res = getattr(holder, uniq)
    elif kind == "wrapped":
        # an ordinary decorator: functools.wraps keeps the signature discoverable, the wrapper itself takes (*a, **k)
        def _decorate(f):
            @functools.wraps(f)
            def wrapper(*a, **k):
                return f(*a, **k)

            return wrapper

        res = _decorate(fn)
    elif kind == "partial":
        # preset the last keyword-capable named parameter, if any
        cands = [p for p in params if p[0] in ("pk", "ko")]
        if cands:
            preset = {cands[-1][1]: "<preset>"}
        res = functools.partial(fn, **preset)
    else:
        res = fn
    _FN_CACHE[key] = (res, preset, src)
    return _FN_CACHE[key]


class Unconstrained(Exception):
    pass


def reference_bind(params, args, kwargs, preset=None):
    """Expected binding, or "TypeError". The reading of the statement that tests/test_signature*.py pins:
    positional parameters own positional slots in order; a slot whose parameter is also available by name takes the
    named value; *args gets the slots nobody owns; a parameter without a slot takes its name, then its default."""
    preset = preset or {}
    bound = {}
    used = set()
    pos = [p for p in params if p[0] in ("po", "pk")]
    i = 0
    for kind, name, dflt in pos:
        if name in preset:
            # functools.partial turns the preset parameter (and every later positional one) into keyword-only
            break
        if i < len(args):
            if kind == "pk" and name in kwargs:
                bound[name] = kwargs[name]
                used.add(name)
            else:
                bound[name] = args[i]
            i += 1
        elif kind == "pk" and name in kwargs:
            bound[name] = kwargs[name]
            used.add(name)
        elif kind == "po" and name in kwargs:
            if not dflt:
                return "TypeError"
            raise Unconstrained()
        elif dflt:
            bound[name] = _SENT[params.index((kind, name, dflt))]
        else:
            return "TypeError"
    rest = [p for p in pos if p[1] not in bound]  # only non-empty with a partial preset
    for kind, name, dflt in rest:
        if name in preset and name not in kwargs:
            bound[name] = preset[name]
        elif kind == "pk" and name in kwargs:
            bound[name] = kwargs[name]
            used.add(name)
        elif dflt:
            bound[name] = _SENT[params.index((kind, name, dflt))]
        elif name in preset:
            bound[name] = preset[name]
        else:
            return "TypeError"
    if any(p[0] == "va" for p in params):
        bound["*"] = tuple(args[i:]) if not rest else ()
        if rest:
            raise Unconstrained()
    for kind, name, dflt in params:
        if kind != "ko":
            continue
        if name in kwargs:
            bound[name] = kwargs[name]
            used.add(name)
        elif name in preset:
            bound[name] = preset[name]
        elif dflt:
            bound[name] = _SENT[params.index((kind, name, dflt))]
        else:
            return "TypeError"
    if any(p[0] == "vk" for p in params):
        bound["**"] = {k: v for k, v in kwargs.items() if k not in used}
    return bound


def same_obj(a, b):
    if a is b:
        return True
    if isinstance(a, tuple) and isinstance(b, tuple):
        return len(a) == len(b) and all(same_obj(x, y) for x, y in zip(a, b))
    if isinstance(a, dict) and isinstance(b, dict):
        return set(a) == set(b) and all(same_obj(a[k], b[k]) for k in a)
    if isinstance(a, str) and isinstance(b, str):
        return a == b
    if type(a) is int and type(b) is int:
        return a == b
    return False


def describe(params):
    return sig_text(params)


# ------------------------------------------------------------------------------------------------ tasks
ORDERS_L1 = [("x", "y", "source", "z"), ("source", "x", "event", "y")]
KW_POOL_L1 = ["x", "y", "source", "q"]
ORDERS_L2 = [("x", "source", "y", "event"), ("target", "x", "machine", "y")]
KW_POOL_L2 = ["x", "source", "machine", "key"]  # `key`: an undeclared user keyword that happens to be a name used inside the library


def tasks(tier):
    quick = tier == "quick"
    out = []
    n = 3 if quick else 4
    sigs1 = gen_signatures(n, ORDERS_L1)
    chunk = 12
    kinds = ["function", "method"] if quick else ["function", "method", "partial", "coroutine"]
    for kind in kinds:
        for lo in range(0, len(sigs1), chunk):
            out.append({"level": 1, "kind": kind, "n": n, "lo": lo, "hi": min(len(sigs1), lo + chunk)})
    for lo in range(0, len(sigs1), chunk):
        if not quick or (lo // chunk) % 3 == 0:
            out.append({"level": 1, "kind": "wrapped", "n": n, "lo": lo, "hi": min(len(sigs1), lo + chunk)})
    sigs2 = gen_signatures(2 if quick else 3, ORDERS_L2)
    chunk2 = 6
    for engine in ("sync", "async"):
        for lo in range(0, len(sigs2), chunk2):
            out.append({"level": 2, "engine": engine, "n": 2 if quick else 3, "lo": lo, "hi": min(len(sigs2), lo + chunk2)})
    out.append({"level": 3})
    return out


BUDGET = {
    "quick": {"max_secs": 600, "task_secs": 400, "path_secs": 30},
    "thorough": {"max_secs": 7200, "task_secs": 3000, "path_secs": 60},
}
BOUNDS = {
    "quick": "level 1 (callable_method(f)(*a, **kw)): every legal signature with <= 3 named parameters (<=1 positional-only, <=2 positional-or-keyword, "
    "<=2 keyword-only, optional *args / **kwargs, every default placement, two name assignments mixing user and reserved names), as plain function, bound "
    "method and (a third of the signatures) behind a functools.wraps decorator, each path binding all of 0..3 positional arguments x every subset of keywords {x, y, source, q}; level 2 (sm.send end-to-end, sync and async engine): signatures with "
    "<= 2 named parameters as an `on_go` method, an `on_enter_b` method and a guard used as `cond='not veto and zero <= veto'` (under a negation and as the right operand of a comparison), 0..2 positional arguments, keyword subsets of {x, source, machine, key} (two of them reserved names, `key` undeclared), plus the same signature on the event that an "
    "`after='hop'` action forwards to; level 3: every ordered pair out of 12 callables that share one qualified name and differ in parameter kinds, keyword-only names or defaults, bound one after the other.",
    "thorough": "<= 4 named parameters at level 1 also as functools.partial and coroutine function; <= 3 named at level 2.",
}
OUTSIDE = "more than 4 named parameters; properties/attributes as callbacks (no binding happens); a keyword naming a positional-only parameter that has a default (left unconstrained); annotations"
OBLIGATIONS = ["bound-ok", "typeerror-expected", "kwonly", "posonly", "varargs-leftover", "varkw-leftover", "reserved-user-kw-filtered", "forwarded-nested"]
ASSUMPTIONS = [
    "reference binding = positional parameters own positional slots in order, a slot whose parameter is available by name takes the named value (pinned by tests/test_signature.py), leftovers to *args/**kwargs, TypeError iff a parameter without default has no source",
    "generated callables carry a qualified name unique to their signature so the process-global signature cache cannot alias them (the aliasing itself is level 3 / C16)",
    "parameter defaults are distinct concrete sentinels",
]


def run(ctx, params):
    if params["level"] == 1:
        return run_l1(ctx, params)
    if params["level"] == 2:
        return run_l2(ctx, params)
    return run_l3(ctx, params)


def draw_call(ctx, pool, max_args):
    nargs = ctx.choose(max_args + 1, "nargs")
    args = tuple(ctx.sym_int(f"a{i}") for i in range(nargs))
    kwargs = {}
    for name in pool:
        if ctx.choose(2, f"kw.{name}"):
            kwargs[name] = ctx.sym_int(f"k.{name}")
    return args, kwargs


def judge(ctx, sig, args, kwargs, preset, call, tag):
    try:
        exp = reference_bind(sig, args, kwargs, preset)
    except Unconstrained:
        try:
            call()
        except TypeError:
            pass
        return
    try:
        got = call()
    except TypeError as e:
        got = "TypeError"
        err = str(e)
    if exp == "TypeError":
        ctx.cover("typeerror-expected")
        if got != "TypeError":
            raise Mismatch(f"missing-TypeError:{tag}", f"def f({describe(sig)}) called with {len(args)} positional, keywords {sorted(kwargs)}: a required parameter has no source, yet the call went through")
        return
    if got == "TypeError":
        raise Mismatch(f"spurious-TypeError:{tag}", f"def f({describe(sig)}) called with {len(args)} positional, keywords {sorted(kwargs)}: {err}")
    for k in exp:
        if k not in got or not same_obj(got[k], exp[k]):
            lost = "caller's value lost" if k in kwargs else "wrong value"
            cls = "kwonly" if any(p[1] == k and p[0] == "ko" for p in sig) else k if k in ("*", "**") else "positional"
            raise Mismatch(
                f"misbound-{cls}:{tag}",
                f"def f({describe(sig)}) called with {len(args)} positional, keywords {sorted(kwargs)}: parameter {k!r} {lost}",
                {"expected_keys": sorted(map(str, exp)), "got_keys": sorted(map(str, got))},
            )
    ctx.cover("bound-ok")
    if any(p[0] == "ko" for p in sig):
        ctx.cover("kwonly")
    if any(p[0] == "po" for p in sig):
        ctx.cover("posonly")
    if exp.get("*"):
        ctx.cover("varargs-leftover")
    if exp.get("**"):
        ctx.cover("varkw-leftover")


def all_shapes(ctx, pool, max_args, falsy_pass=True):
    """Every call shape (number of positionals x keyword subset) with fresh symbolic values; the keyword subsets a
    second time with the values None / 0 / '' (a caller's falsy value is still the caller's value)."""
    for nargs in range(max_args + 1):
        for mask in range(1 << len(pool)):
            args = tuple(ctx.sym_int(f"a{i}@{nargs}.{mask}") for i in range(nargs))
            kwargs = {name: ctx.sym_int(f"k.{name}@{nargs}.{mask}") for b, name in enumerate(pool) if mask >> b & 1}
            yield args, kwargs
            if mask and falsy_pass:
                falsy = [None, 0, ""]
                yield args, {name: falsy[b % 3] for b, name in enumerate(pool) if mask >> b & 1}


def run_l1(ctx, params):
    from statemachine.dispatcher import callable_method

    sigs = gen_signatures(params["n"], ORDERS_L1)[params["lo"] : params["hi"]]
    sig = sigs[ctx.choose(len(sigs), "sig")]
    with ctx.notracing():
        fn, preset, _src = make_callable(sig, params["kind"], "l1")
    wrapped = callable_method(fn)
    n = 0
    for args, kwargs in all_shapes(ctx, KW_POOL_L1, 3):
        if params["kind"] == "coroutine":
            import asyncio

            def call():
                loop = asyncio.new_event_loop()
                try:
                    return loop.run_until_complete(wrapped(*args, **dict(kwargs)))
                finally:
                    loop.close()

        else:

            def call():
                return wrapped(*args, **dict(kwargs))

        judge(ctx, sig, args, kwargs, preset, call, f"L1:{params['kind']}")
        n += 1
    ctx.note({"sig": describe(sig), "call_shapes": n})


_L2 = {}


def l2_machine(sig, engine):
    """Machine a --go--> b --hop--> c whose on_go / on_hop have the generated signature; go has after='hop'."""
    key = (sig, engine)
    if key in _L2:
        return _L2[key]
    from statemachine import State, StateMachine

    kind = "coroutine" if engine == "async" else "function"
    fn, _p, src = make_callable(sig, kind, f"l2{engine}")
    # a method: add self
    uniq = f"m_{engine}_{abs(hash(sig)) % 10**10}"
    body = src.split("return", 1)[1].strip()
    log_src = (
        f"{'async ' if engine == 'async' else ''}def {uniq}(self, {sig_text(sig)}):\n"
        f"    r = {body}\n    self.seen.append(r)\n    return r\n"
        f"def veto_{uniq}(self, {sig_text(sig)}):\n"
        f"    r = {body}\n    self.seen_guard.append(r)\n    return False\n"
    )
    ns = {"_SENT": _SENT}
    exec(compile(log_src.replace("(self, )", "(self)"), f"<c07:{uniq}>", "exec"), ns)  # noqa: S102
    m = ns[uniq]
    attrs = {
        "a": State(initial=True),
        "b": State(),
        "c": State(),
    }
    # the guard is used under a negation inside an expression, so it is called through the expression combinators
    # ... and as the right operand of a comparison (0 <= False), called through the comparison combinator
    attrs["go"] = attrs["a"].to(attrs["b"], cond="not veto and zero <= veto", after="hop")
    attrs["zero"] = 0
    attrs["hop"] = attrs["b"].to(attrs["c"]) | attrs["c"].to(attrs["a"])
    attrs["on_go"] = m
    attrs["on_hop"] = m
    attrs["on_enter_b"] = m
    veto = ns["veto_" + uniq]
    veto.__name__ = "veto"
    attrs["veto"] = veto
    cls = type(StateMachine)(f"C07L2{uniq}", (StateMachine,), attrs)
    _L2[key] = cls
    return cls


def run_l2(ctx, params):
    sigs = gen_signatures(params["n"], ORDERS_L2)[params["lo"] : params["hi"]]
    sig = sigs[ctx.choose(len(sigs), "sig")]
    engine = params["engine"]
    with ctx.notracing():
        cls = l2_machine(sig, engine)
        sm = cls()
        if engine == "async":
            sm.activate_initial_state()
        sm.seen = []
        sm.seen_guard = []
    tag = f"L2:{engine}"
    for args, ukw in all_shapes(ctx, KW_POOL_L2, 2, falsy_pass=False):
        with ctx.notracing():
            sm.current_state_value = "a"
            del sm.seen[:]
            del sm.seen_guard[:]
        l2_one(ctx, sm, sig, args, ukw, tag)
    ctx.note({"sig": describe(sig)})


def l2_one(ctx, sm, sig, args, ukw, tag):
    if "source" in ukw or "machine" in ukw or "model" in ukw:
        ctx.cover("reserved-user-kw-filtered")
    user = {k: v for k, v in ukw.items() if k not in RESERVED}

    def builtins_for(src, tgt, ev):
        return {"machine": sm, "source": src, "target": tgt, "event": ev, "model": sm.model}

    def check_view(got, exp_b, which):
        # reserved names must describe the event being processed (compared by identity / id), never user data
        for k, v in list(got.items()):
            if k in exp_b:
                e = exp_b[k]
                ok = (v is e) or (k in ("source", "target") and getattr(v, "id", None) == e) or (k == "event" and isinstance(v, str) and v == e)
                if not ok:
                    raise Mismatch(f"builtin-overridden-or-wrong:{tag}", f"{which}: parameter {k!r} of def f({describe(sig)}) did not receive the built-in value (user kw {sorted(ukw)})")

    outcome = None
    try:
        sm.send("go", *args, **dict(ukw))
        outcome = "ok"
    except TypeError as e:
        outcome = "TypeError"
        err = str(e)
    # expectation for on_go: built-ins layered over filtered user kwargs
    names = [p[1] for p in sig if p[0] in ("po", "pk", "ko")]
    marker = {k: ("<builtin>", k) for k in RESERVED}
    kw_go = dict(user)
    kw_go.update(marker)
    try:
        exp = reference_bind(sig, args, kw_go, None)
    except Unconstrained:
        return
    if exp == "TypeError":
        ctx.cover("typeerror-expected")
        if outcome != "TypeError":
            raise Mismatch(f"missing-TypeError:{tag}", f"on_go({describe(sig)}) with {len(args)} positional, keywords {sorted(ukw)}")
        return
    if outcome == "TypeError":
        raise Mismatch(f"spurious-TypeError:{tag}", f"on_go({describe(sig)}) with {len(args)} positional, keywords {sorted(ukw)}: {err}")
    if len(sm.seen) != 3 or len(sm.seen_guard) != 2:
        raise Mismatch(f"callback-count:{tag}", f"expected the guard twice (under `not`, and as operand of `<=`) and on_go, on_enter_b, on_hop (forwarded); saw {len(sm.seen_guard)} + {len(sm.seen)} call(s)")
    views = [builtins_for("a", "b", "go"), builtins_for("a", "b", "go"), builtins_for("a", "b", "go"), builtins_for("a", "b", "go"), builtins_for("b", "c", "hop")]
    for got, view, which in zip(sm.seen_guard + sm.seen, views, ("guard under `not`", "guard as right operand of `<=`", "on_go", "on_enter_b", "forwarded on_hop")):
        for k, e in exp.items():
            if k == "**":
                g = {kk: vv for kk, vv in got["**"].items() if kk not in RESERVED}
                ee = {kk: vv for kk, vv in e.items() if kk not in RESERVED}
                if not same_obj(g, ee) or not all(r in got["**"] for r in RESERVED if r in e):
                    raise Mismatch(f"misbound-**:{tag}", f"{which}({describe(sig)}): **kwargs holds {sorted(got['**'])}, expected user part {sorted(ee)} plus the built-ins")
                check_view({kk: vv for kk, vv in got["**"].items() if kk in view}, view, which)
                continue
            if isinstance(e, tuple) and len(e) == 2 and e[0] == "<builtin>":
                if e[1] in view:
                    check_view({e[1]: got[k]}, {e[1]: view[e[1]]}, which)
                    # the parameter is called k and must carry built-in named e[1] (same name unless misbound)
                    if k != e[1]:
                        raise Mismatch(f"misbound-positional:{tag}", f"{which}: {k} got built-in {e[1]}")
                continue
            if k not in got or not same_obj(got[k], e):
                cls = "kwonly" if any(p[1] == k and p[0] == "ko" for p in sig) else k if k in ("*", "**") else "positional"
                raise Mismatch(f"misbound-{cls}:{tag}", f"{which}({describe(sig)}) with {len(args)} positional, keywords {sorted(ukw)}: parameter {k!r} wrong")
    ctx.cover("bound-ok")
    ctx.cover("forwarded-nested")


L3_SIGS = [
    (("pk", "x", False), ("pk", "y", False)),
    (("pk", "x", False), ("pk", "y", True)),
    (("po", "x", False), ("pk", "y", False)),
    (("po", "x", False), ("po", "y", True)),
    (("pk", "x", False), ("ko", "y", False)),
    (("pk", "x", False), ("ko", "y", True)),
    (("pk", "x", False), ("va", "args", False), ("ko", "y", True)),
    (("pk", "x", False), ("vk", "kw", False)),
    (("pk", "x", False), ("ko", "q", True)),
    (("pk", "x", False), ("ko", "source", True)),
    (("pk", "x", False), ("ko", "q", True), ("vk", "kw", False)),
    (("pk", "x", False),),
]


def make_shared(params_sig, idx):
    """Callables that all carry the same name and qualified name ("shared")."""
    key = ("shared", params_sig)
    if key in _FN_CACHE:
        return _FN_CACHE[key]
    body_items = []
    for k, name, _d in params_sig:
        body_items.append('"*": args' if k == "va" else '"**": kw' if k == "vk" else f'"{name}": {name}')
    src = f"def shared({sig_text(params_sig)}):\n    return {{{', '.join(body_items)}}}\n"
    ns = {"_SENT": _SENT}
    exec(compile(src, "<c07:shared>", "exec"), ns)  # noqa: S102
    _FN_CACHE[key] = ns["shared"]
    return ns["shared"]


def run_l3(ctx, params):
    """Two callbacks with the same qualified name whose signatures differ in kinds / keyword-only names / defaults
    are bound one after the other: each must be bound by its own signature."""
    from statemachine.dispatcher import callable_method

    i = ctx.choose(len(L3_SIGS), "first")
    j = ctx.choose(len(L3_SIGS), "second")
    if i == j:
        return
    with ctx.notracing():
        from statemachine.signature import SignatureAdapter

        clear = getattr(SignatureAdapter.from_callable, "clear_cache", None)
        if clear is not None:
            clear()  # every path is a complete history: nothing cached by earlier paths of this process
    with ctx.notracing():
        fns = [make_shared(L3_SIGS[i], i), make_shared(L3_SIGS[j], j)]
    for which, (sig, fn) in enumerate(zip((L3_SIGS[i], L3_SIGS[j]), fns)):
        wrapped = callable_method(fn)
        for args, kwargs in all_shapes(ctx, ["x", "y", "q"], 2):
            try:
                judge(ctx, sig, args, kwargs, None, lambda: wrapped(*args, **dict(kwargs)), "L3")
            except Mismatch as m:
                if which == 1:
                    raise Mismatch(
                        "signature-cache-aliases-same-qualname:L3",
                        f"after binding def shared({describe(L3_SIGS[i])}), def shared({describe(L3_SIGS[j])}) is bound wrongly: {m.msg[:200]}",
                    )
                raise
    ctx.cover("bound-ok")
