"""Transition system over the IR of vfw.bmc and its z3 bounded model checking (all schedules within K steps).

Pure bit-vector / Boolean encoding (QF_BV): per sender a program counter over the shared instructions of the
lowered `send`, a micro-step counter inside the opaque trigger, the event in hand; shared: the lock bit, the queue as
explicit slots with head/tail, one status per event, and three sticky violation flags.  One transition = one shared
operation of one sender.  `threads`: any sender may move at any step.  `asyncio`: the running task changes only after
a yield inside a callback or after one of its sends returned.
"""

from __future__ import annotations

import time

import z3

from .bmc import Unsupported

SHARED = ("PUT", "ACQ", "REL", "QNE", "POP", "CLEAR", "TRIG", "LTEST", "LSET")
# event status
UNSENT, QUEUED, RUNNING, DONE_OK, FAILED, DROPPED = range(6)


def simplify_code(code, entry):
    """Thread-local instructions disappear (CONST resolved; the two arms of LOCAL are equivalent - checked before)."""

    def res(t):
        seen = set()
        while isinstance(t, int) and code[t].op in ("CONST", "LOCAL", "NOP", "JMP") and t not in seen:
            seen.add(t)
            ins = code[t]
            t = (ins.nxt if ins.arg else ins.alt) if ins.op == "CONST" else ins.nxt
        return t

    return res, res(entry)


class TS:
    def __init__(self, code, entry, mode, senders, per_sender, max_yields=2, allow_fail=True, allow_nested=True, slack=2, act_entry=None, act_calls=0):
        self.code = code
        self.res, self.entry = simplify_code(code, entry)
        if not isinstance(self.entry, int):
            raise Unsupported("send() performs no shared operation")
        self.mode = mode
        self.S = senders
        self.n = per_sender
        # an optional extra thread/task that calls activate_initial_state() `act_calls` times (no event of its own)
        self.A = 1 if (act_entry is not None and act_calls > 0) else 0
        self.act_calls = act_calls
        self.act_entry = self.res(act_entry) if self.A else None
        if self.A and not isinstance(self.act_entry, int):
            self.A = 0  # activation performs no shared operation at all
        self.T = self.S + self.A
        if self.T > 4:
            raise Unsupported("more than 4 threads")
        self.top = [(t, j) for t in range(senders) for j in range(per_sender)]
        self.nE = len(self.top)
        self.allow_nested = allow_nested
        self.M = 2 * self.nE if allow_nested else self.nE
        self.max_yields = max_yields if mode == "asyncio" else 0
        self.QS = self.M + 2
        self.PCDONE = len(code)  # program counter value of a sender that has finished all its sends
        self.wpc = max(2, (len(code) + 1).bit_length())
        self.we = max(2, (self.M + 1).bit_length())
        self.wq = max(2, (self.QS + 1).bit_length())
        # steps: every send needs PUT+ACQ (+ final QNE+REL for a drainer); every event QNE+POP+BEGIN+END (+NPUT, +yields, +CLEAR)
        self.K = self.S * self.n * 4 + self.M * (4 + self.max_yields) + (self.M - self.nE) + self.nE + slack + self.A * self.act_calls * 4
        self.solver = z3.SolverFor("QF_BV")
        self.nested = [z3.Bool(f"nested_{e}") for e in range(self.nE)]
        self.fails = [z3.Bool(f"fails_{e}") for e in range(self.M)]
        self.nyield = [z3.BitVec(f"nyield_{e}", 2) for e in range(self.M)]
        for e in range(self.M):
            self.solver.add(z3.ULE(self.nyield[e], self.max_yields))
            if not allow_fail:
                self.solver.add(z3.Not(self.fails[e]))
        if not allow_nested:
            for e in range(self.nE):
                self.solver.add(z3.Not(self.nested[e]))
        self.sched = [z3.BitVec(f"sched_{k}", 2) for k in range(self.K)]
        self.states = [self.mk_state(k) for k in range(self.K + 1)]
        self.switch_ok = [z3.Bool(f"switch_ok_{k}") for k in range(self.K)]
        self.init()
        for k in range(self.K):
            self.step(k)

    def bv(self, v, w):
        return z3.BitVecVal(v, w)

    def mk_state(self, k):
        S, M = self.T, self.M
        return {
            "pc": [z3.BitVec(f"pc_{k}_{t}", self.wpc) for t in range(S)],
            "sub": [z3.BitVec(f"sub_{k}_{t}", 2) for t in range(S)],
            "cur": [z3.BitVec(f"cur_{k}_{t}", self.we) for t in range(S)],
            "yl": [z3.BitVec(f"yl_{k}_{t}", 2) for t in range(S)],
            "sent": [z3.BitVec(f"sent_{k}_{t}", 2) for t in range(S)],
            "intrig": [z3.Bool(f"intrig_{k}_{t}") for t in range(S)],
            "lock": z3.Bool(f"lock_{k}"),
            "qh": z3.BitVec(f"qh_{k}", self.wq),
            "qt": z3.BitVec(f"qt_{k}", self.wq),
            "slot": [z3.BitVec(f"slot_{k}_{i}", self.we) for i in range(self.QS)],
            "status": [z3.BitVec(f"st_{k}_{e}", 3) for e in range(M)],
            "overlap": z3.Bool(f"overlap_{k}"),
            "dup": z3.Bool(f"dup_{k}"),
            "misorder": z3.Bool(f"misorder_{k}"),
            "overflow": z3.Bool(f"overflow_{k}"),
        }

    def init(self):
        s0 = self.states[0]
        add = self.solver.add
        for t in range(self.T):
            add(s0["pc"][t] == (self.entry if t < self.S else self.act_entry), s0["sub"][t] == 0, s0["cur"][t] == 0, s0["yl"][t] == 0, s0["sent"][t] == 0, z3.Not(s0["intrig"][t]))
        add(z3.Not(s0["lock"]), s0["qh"] == 0, s0["qt"] == 0)
        add(z3.Not(s0["overlap"]), z3.Not(s0["dup"]), z3.Not(s0["misorder"]), z3.Not(s0["overflow"]))
        for i in range(self.QS):
            add(s0["slot"][i] == 0)
        for e in range(self.M):
            add(s0["status"][e] == UNSENT)

    def all_done(self, s):
        return z3.And(*[s["pc"][t] == self.PCDONE for t in range(self.T)])

    # ------------------------------------------------------------------ one step
    def step(self, k):
        a, b = self.states[k], self.states[k + 1]
        add = self.solver.add
        sch = self.sched[k]
        add(z3.ULT(sch, self.T))
        done = self.all_done(a)
        for t in range(self.T):
            add(z3.Implies(z3.And(sch == t, z3.Not(done)), a["pc"][t] != self.PCDONE))
        if self.mode == "asyncio" and k > 0:
            add(z3.Implies(sch != self.sched[k - 1], z3.Or(self.switch_ok[k - 1], done)))
        upd = {}

        def setv(cond, var, idx, val):
            upd.setdefault((var, idx), []).append((cond, val))

        switch_points = []
        for t in range(self.T):
            me = z3.And(sch == t, z3.Not(done))
            pc, sub = a["pc"][t], a["sub"][t]
            if t < self.S:
                ev_top = self.bv(self.top.index((t, self.n - 1)), self.we)
                for j in range(self.n - 1):
                    ev_top = z3.If(a["sent"][t] == j, self.bv(self.top.index((t, j)), self.we), ev_top)
            else:
                ev_top = None  # the activator sends nothing
            for i, ins in enumerate(self.code):
                if ins.op not in SHARED:
                    continue
                at = z3.And(me, pc == i)
                nxt = self.res(ins.nxt)
                alt = self.res(ins.alt) if ins.alt is not None else None
                exc = self.res(ins.exc) if ins.exc is not None else None
                if ins.op == "PUT":
                    if ev_top is None:
                        add(z3.Not(at))  # unreachable for the activator (its program contains no put)
                        continue
                    self.do_put(setv, at, a, ev_top)
                    self.goto(setv, at, a, t, nxt, switch_points)
                elif ins.op == "ACQ":
                    got = z3.Not(a["lock"])
                    setv(z3.And(at, got), "lock", None, z3.BoolVal(True))
                    self.goto(setv, z3.And(at, got), a, t, nxt, switch_points)
                    self.goto(setv, z3.And(at, z3.Not(got)), a, t, alt, switch_points)
                elif ins.op == "REL":
                    setv(at, "lock", None, z3.BoolVal(False))
                    self.goto(setv, at, a, t, nxt, switch_points)
                elif ins.op == "LTEST":
                    self.goto(setv, z3.And(at, a["lock"]), a, t, nxt, switch_points)
                    self.goto(setv, z3.And(at, z3.Not(a["lock"])), a, t, alt, switch_points)
                elif ins.op == "LSET":
                    setv(at, "lock", None, z3.BoolVal(bool(ins.arg)))
                    self.goto(setv, at, a, t, nxt, switch_points)
                elif ins.op == "QNE":
                    ne = a["qt"] != a["qh"]
                    self.goto(setv, z3.And(at, ne), a, t, nxt, switch_points)
                    self.goto(setv, z3.And(at, z3.Not(ne)), a, t, alt, switch_points)
                elif ins.op == "POP":
                    head = a["slot"][self.QS - 1]
                    for i2 in range(self.QS - 1):
                        head = z3.If(a["qh"] == i2, a["slot"][i2], head)
                    setv(at, "cur", t, head)
                    setv(at, "qh", None, a["qh"] + 1)
                    setv(z3.And(at, a["qt"] == a["qh"]), "overflow", None, z3.BoolVal(True))  # pop from empty
                    for e in range(self.M):
                        setv(z3.And(at, head == e), "status", e, self.bv(RUNNING, 3))
                        setv(z3.And(at, head == e, a["status"][e] != QUEUED), "dup", None, z3.BoolVal(True))
                    self.goto(setv, at, a, t, nxt, switch_points)
                elif ins.op == "CLEAR":
                    setv(at, "qh", None, a["qt"])
                    for e in range(self.M):
                        setv(z3.And(at, a["status"][e] == QUEUED), "status", e, self.bv(DROPPED, 3))
                    self.goto(setv, at, a, t, nxt, switch_points)
                elif ins.op == "TRIG":
                    cur = a["cur"][t]
                    has_child = z3.Or(*[z3.And(cur == e, self.nested[e]) for e in range(self.nE)]) if self.allow_nested else z3.BoolVal(False)
                    # micro-step 0: the callbacks of the event begin
                    c0 = z3.And(at, sub == 0)
                    setv(c0, "intrig", t, z3.BoolVal(True))
                    setv(c0, "sub", t, z3.If(has_child, self.bv(1, 2), self.bv(2, 2)))
                    others = z3.Or(*[a["intrig"][u] for u in range(self.T) if u != t]) if self.T > 1 else z3.BoolVal(False)
                    setv(z3.And(c0, others), "overlap", None, z3.BoolVal(True))
                    for e in range(self.M):
                        setv(z3.And(c0, cur == e), "yl", t, self.nyield[e])
                    # an earlier event of the same sender must not still be waiting when a later one starts
                    for (t2, j2) in self.top:
                        e2 = self.top.index((t2, j2))
                        for j1 in range(j2):
                            e1 = self.top.index((t2, j1))
                            setv(z3.And(c0, cur == e2, a["status"][e1] == QUEUED), "misorder", None, z3.BoolVal(True))
                    # micro-step 1: a callback sends the nested event (same program: put, then a try-acquire that cannot succeed)
                    c1 = z3.And(at, sub == 1)
                    child = cur + self.nE
                    self.do_put(setv, c1, a, child)
                    setv(c1, "sub", t, self.bv(2, 2))
                    # micro-step 2: yields (asyncio), then the callbacks end or raise
                    c2 = z3.And(at, sub == 2)
                    y = z3.And(c2, a["yl"][t] != 0)
                    setv(y, "yl", t, a["yl"][t] - 1)
                    switch_points.append(y)
                    fin = z3.And(c2, a["yl"][t] == 0)
                    failing = z3.Or(*[z3.And(cur == e, self.fails[e]) for e in range(self.M)])
                    setv(fin, "intrig", t, z3.BoolVal(False))
                    setv(fin, "sub", t, self.bv(0, 2))
                    for e in range(self.M):
                        setv(z3.And(fin, cur == e), "status", e, z3.If(self.fails[e], self.bv(FAILED, 3), self.bv(DONE_OK, 3)))
                    if exc is None:
                        raise Unsupported("trigger without an exception edge")
                    self.goto(setv, z3.And(fin, failing), a, t, exc, switch_points)
                    self.goto(setv, z3.And(fin, z3.Not(failing)), a, t, nxt, switch_points)
        add(self.switch_ok[k] == (z3.Or(*switch_points) if switch_points else z3.BoolVal(False)))
        for var in ("pc", "sub", "cur", "yl", "sent", "intrig"):
            for t in range(self.T):
                add(b[var][t] == self.fold(upd.get((var, t), []), a[var][t]))
        for var in ("lock", "qh", "qt", "overlap", "dup", "misorder", "overflow"):
            add(b[var] == self.fold(upd.get((var, None), []), a[var]))
        for i in range(self.QS):
            add(b["slot"][i] == self.fold(upd.get(("slot", i), []), a["slot"][i]))
        for e in range(self.M):
            add(b["status"][e] == self.fold(upd.get(("status", e), []), a["status"][e]))

    @staticmethod
    def fold(cases, default):
        out = default
        for cond, val in reversed(cases):
            out = z3.If(cond, val, out)
        return out

    def goto(self, setv, cond, a, t, target, switch_points):
        if target in ("RET", "RAISE"):
            last = a["sent"][t] == (self.n if t < self.S else self.act_calls) - 1
            setv(cond, "sent", t, a["sent"][t] + 1)
            setv(z3.And(cond, z3.Not(last)), "pc", t, self.bv(self.entry if t < self.S else self.act_entry, self.wpc))
            setv(z3.And(cond, last), "pc", t, self.bv(self.PCDONE, self.wpc))
            switch_points.append(cond)  # the sender's own code runs between two sends and may yield there
        else:
            if not isinstance(target, int):
                raise Unsupported(f"bad jump target {target!r}")
            setv(cond, "pc", t, self.bv(target, self.wpc))

    def do_put(self, setv, cond, a, ev):
        for i in range(self.QS):
            setv(z3.And(cond, a["qt"] == i), "slot", i, ev)
        setv(cond, "qt", None, a["qt"] + 1)
        setv(z3.And(cond, a["qt"] == self.QS - 1), "overflow", None, z3.BoolVal(True))
        for e in range(self.M):
            setv(z3.And(cond, ev == e), "status", e, self.bv(QUEUED, 3))
            setv(z3.And(cond, ev == e, a["status"][e] != UNSENT), "dup", None, z3.BoolVal(True))

    # ------------------------------------------------------------------ queries (reachability of a bad state)
    def q_unwinding(self):
        return z3.Not(self.all_done(self.states[self.K]))

    def q_overlap(self):
        return self.states[self.K]["overlap"]

    def q_twice_or_misordered(self):
        s = self.states[self.K]
        return z3.Or(s["dup"], s["misorder"], s["overflow"])

    def q_stranded(self):
        s = self.states[self.K]
        return z3.And(self.all_done(s), z3.Or(s["qt"] != s["qh"], *[z3.Or(s["status"][e] == QUEUED, s["status"][e] == RUNNING) for e in range(self.M)]))

    def q_lock_held(self):
        s = self.states[self.K]
        return z3.And(self.all_done(s), s["lock"])

    def queries(self):
        return [
            ("unwinding-assertion", self.q_unwinding()),
            ("Q1-overlap", self.q_overlap()),
            ("Q2-exactly-once-in-order", self.q_twice_or_misordered()),
            ("Q3-stranded", self.q_stranded()),
            ("Q4-lock-held", self.q_lock_held()),
        ]

    def check(self, name, formula, timeout_ms=600000, exclude=None):
        self.solver.push()
        self.solver.add(formula)
        if exclude is not None:
            self.solver.add(exclude)
        self.solver.set("timeout", timeout_ms)
        t0 = time.time()
        r = self.solver.check()
        dt = time.time() - t0
        out = {"query": name, "result": str(r), "seconds": round(dt, 2)}
        if r == z3.sat:
            out["trace"] = self.decode(self.solver.model())
        self.solver.pop()
        return out

    def decode(self, m):
        def iv(x):
            v = m.eval(x, model_completion=True)
            return v.as_long() if z3.is_bv_value(v) else bool(v)

        steps = []
        for k in range(self.K):
            a = self.states[k]
            if all(iv(a["pc"][t]) == self.PCDONE for t in range(self.T)):
                break
            t = iv(self.sched[k])
            pc, sub = iv(a["pc"][t]), iv(a["sub"][t])
            op = self.code[pc].op
            detail = None
            if op == "TRIG":
                cur = iv(a["cur"][t])
                if sub == 0:
                    op, detail = "BEGIN", cur
                elif sub == 1:
                    op, detail = "NPUT", cur + self.nE
                elif iv(a["yl"][t]) != 0:
                    op, detail = "YIELD", cur
                else:
                    op, detail = ("FAIL" if iv(self.fails[cur]) else "END"), cur
            elif op == "ACQ":
                detail = not iv(a["lock"])
            elif op == "LTEST":
                detail = iv(a["lock"])
            elif op == "QNE":
                detail = iv(a["qt"]) != iv(a["qh"])
            elif op == "PUT" and t < self.S:
                detail = self.top.index((t, min(iv(a["sent"][t]), self.n - 1)))
            elif op == "POP":
                qh = iv(a["qh"])
                detail = iv(a["slot"][min(qh, self.QS - 1)])
            steps.append([t, op, detail])
        return {
            "steps": steps,
            "params": {"nested": [iv(x) for x in self.nested], "fails": [iv(x) for x in self.fails], "nyield": [iv(x) for x in self.nyield]},
        }
