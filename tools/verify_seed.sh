#!/bin/bash
# usage: tools/verify_seed.sh <patch.diff> <demo.py> <tag>  -> prints one line: tag apply=<ok|fail> tests=<N passed|...> demo_with=<rc> demo_without=<rc>
diff="$1"; demo="$2"; tag="$3"
wt=$(mktemp -d /tmp/sv.XXXXXX); rmdir "$wt"
git -C /repo worktree add -q --detach "$wt" HEAD || { echo "$tag worktree-failed"; exit 3; }
cleanup() { git -C /repo worktree remove --force "$wt" >/dev/null 2>&1; rm -rf "$wt"; }
trap cleanup EXIT
cd "$wt"
PYTHONPATH="$wt" /venv/bin/python "$demo" >/dev/null 2>&1; without=$?
if git apply --check "$diff" 2>/dev/null; then git apply "$diff"; ap=ok; else echo "$tag apply=FAIL demo_without=$without"; exit 0; fi
tests=$(PYTHONPATH="$wt" /venv/bin/python -m pytest -q -p no:cacheprovider --timeout=900 2>&1 | tail -1 | cut -c1-60)
PYTHONPATH="$wt" /venv/bin/python "$demo" >/dev/null 2>&1; with=$?
echo "$tag apply=$ap tests=[$tests] demo_with=$with demo_without=$without"
