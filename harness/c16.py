"""C16 - machines are isolated from other instances, classes and definitions (SX).

Real code under the tracer: everything a disturbing operation executes - the class statement of an unrelated class
that reuses A's class and method names (metaclass, registry), of a subclass of A (add_inherited), instantiation and
driving of other instances (signature cache, callbacks registry, per-instance state cache) - and every send() on A.

Solver-enumerated structure: a script interleaving steps of machine A with disturbers, and the point at which each
happens.  Solver variables: A's guard value and event argument.  Oracle: A alone (a table), not a re-run, because
the caches under test are process-global.
"""

from __future__ import annotations

from vfw.ctx import Mismatch

PROPERTY = "C16"

DISTURBERS = ["none", "class-with-clashing-state-ids", "sibling-with-async-listener", "other-driven-inside-callback", "sibling-other-start-value", "define-same-names", "drive-same-names", "second-instance", "subclass-new-event", "subclass-any", "define-other-signature-lambda", "drive-same-names-refusing", "sibling-sends-my-event-object"]


def make_A():
    from statemachine import State, StateMachine

    class A(StateMachine):
        a = State(initial=True)
        b = State()
        c = State()
        go = a.to(b, cond="ok") | a.to(c) | b.to(c) | c.to(a)
        back = b.to(a)

        def __init__(self, *a, **k):
            self.trace = []
            self.vals = {"ok": None}
            self.inner = None
            StateMachine.__init__(self, *a, **k)

        def ok(self, x=None, *, strict=False):
            self.trace.append(("ok", x, strict))
            return self.vals["ok"]

        def on_go(self, x, source, *, flag=None):
            self.trace.append(("on_go", x, source.id, flag))
            if self.inner is not None:
                inner, self.inner = self.inner, None
                inner(self)  # something else happens while this machine is in the middle of its transition
            return ("A", x, flag)

        def on_enter_state(self, state):
            self.trace.append(("enter", state.id))

    return A


def make_B_same_names():
    """An unrelated class with A's class name and method names but different signatures and structure."""
    from statemachine import State, StateMachine

    def build():
        class A(StateMachine):  # noqa: F811 - deliberately the same name
            a = State(initial=True)
            b = State()
            go = a.to(b, cond="ok") | b.to(a)

            def __init__(self, *a, **k):
                self.trace = []
                StateMachine.__init__(self, *a, **k)

            def ok(self, strict, x=7):
                self.trace.append(("B.ok", strict, x))
                return False

            def on_go(self, flag, x=None, *source):
                self.trace.append(("B.on_go", flag, x))
                return ("B", flag)

            def on_enter_state(self, *state):
                self.trace.append(("B.enter",))

        return A

    B = build()
    # same qualified names as A's methods
    for n in ("ok", "on_go", "on_enter_state"):
        getattr(B, n).__qualname__ = f"make_A.<locals>.A.{n}"
    B.__qualname__ = "make_A.<locals>.A"
    return B


def make_B_kwonly():
    from statemachine import State, StateMachine

    def build():
        class A(StateMachine):  # noqa: F811
            a = State(initial=True)
            b = State()
            go = a.to(b) | b.to(a)

            def on_go(self, x, source, *, other=None):
                return ("K", x, other)

            def on_enter_state(self, state):
                pass

        return A

    K = build()
    for n in ("on_go", "on_enter_state"):
        getattr(K, n).__qualname__ = f"make_A.<locals>.A.{n}"
    K.__qualname__ = "make_A.<locals>.A"
    return K


NEXT = {("a", True): "b", ("a", False): "c", ("b", None): "c", ("c", None): "a"}


def make_B_refusing():
    """An unrelated class with A's name and equally declared states (same repr) that does NOT handle `go` in `a`."""
    from statemachine import State, StateMachine

    def build():
        class A(StateMachine):  # noqa: F811
            a = State(initial=True)
            b = State()
            c = State()
            start = a.to(b)
            go = b.to(c) | c.to(a)
            back = a.to(c)

        return A

    R = build()
    R.__qualname__ = "make_A.<locals>.A"
    return R


def tasks(tier):
    out = [{"kind": "model-guard", "d1": 0, "d2": 0}, {"kind": "same-enum", "d1": 0, "d2": 0}]
    for d1 in range(len(DISTURBERS)):
        for d2 in range(len(DISTURBERS)):
            if tier == "quick" and d1 != 0 and d2 != 0 and d1 != d2 and (d1 + d2) % 3:
                continue
            out.append({"d1": d1, "d2": d2, "steps": 3})
    return out


BUDGET = {
    "quick": {"max_secs": 600, "task_secs": 400, "path_secs": 30},
    "thorough": {"max_secs": 3600, "task_secs": 3000, "path_secs": 60},
}
BOUNDS = {
    "quick": "machine A (3 states, guarded + fallback candidates, callbacks taking event arguments positionally and keyword-only) driven by 3 `go` events; before "
    "each of the first two events one disturber out of {none, define an unrelated class with A's qualified class and method names but other signatures, define and "
    "drive it, create and drive a second A (between A's events, and from inside one of A's own callbacks), create siblings with other start_value, define a subclass of A that adds an event on A's states, define a subclass using from_.any(), define a lambda-bearing "
    "class}; optionally another machine over a model of the same class but other instance-level hooks created first; an instance of A created after all disturbances is checked as well; disturbers also: an unrelated class whose state ids equal A's guard/callback names, a sibling A with a coroutine listener; an unrelated class with A's name and equally declared states that refuses `go` (and an unknown event) in `a` and is driven; a sibling that is sent an event object taken from A's allowed_events; a sample of the 13x13 disturber pairs; a separate scenario: two unrelated classes built with States.from_enum over the same enum (3 definition / instantiation orders, with and without use_enum_instance); another: a class whose guard/action names are provided only by the model or a listener - what happens to an instance without a provider (today: InvalidDefinition) is the same whether it is the first instance of the class or follows good (driven) ones - compared with an identical fresh class - and good instances obey their own model's guard; A's trace, states, allowed events, argument binding and result compared with A alone.",
    "thorough": "all 169 disturber pairs.",
}
OUTSIDE = "interleavings across OS threads; more than two disturbers per history; pickling (C17)"
OBLIGATIONS = ["classes-from-same-enum", "sibling-sent-event-object", "bad-instance-verdict-stable", "model-guard-decides", "same-names-refusing", "clashing-state-ids", "async-sibling", "driven-inside-callback", "sibling-start-values", "same-names-kwonly-first", "model-of-same-class-before", "undisturbed", "same-names-defined", "second-instance", "subclass-defined", "binding-checked"]
ASSUMPTIONS = [
    "the library's process-wide signature cache is emptied (through its own clear_cache hook, when present) at the start of every path, so that a path is a complete history",
    "A's expected behaviour is a table (A alone); comparing with a re-run would share the caches under test",
]


def reset_process_caches():
    """Each path must be a self-contained history: forget what earlier paths of this worker process left in the
    library's process-wide signature cache (otherwise the order in which paths are explored decides who is cached first)."""
    try:
        from statemachine.signature import SignatureAdapter

        clear = getattr(SignatureAdapter.from_callable, "clear_cache", None)
        if clear is not None:
            clear()
    except Exception:  # noqa: BLE001 - the cache may have been refactored away
        pass


def run_model_guard(ctx, params):
    """A guard given by name and provided by the model (or a listener) only.  What happens to an instance whose own
    model / listener does not provide the name (today: the constructor raises InvalidDefinition) must not depend on the
    instances created before it: the verdict is compared with that of an identical, fresh class where the same instance
    comes first.  Good instances obey their own provider's guard."""
    from statemachine import State, StateMachine

    def make_G():
        class G(StateMachine):
            a = State(initial=True)
            b = State()
            go = a.to(b, cond="permit")
            stay = b.to.itself(on="note_it")

        return G

    with ctx.notracing():
        reset_process_caches()
        G, Gref = make_G(), make_G()

    class Good:
        def __init__(self, v):
            self.state = None
            self.v = v
            self.notes = 0

        def permit(self):
            return self.v

        def note_it(self):
            self.notes += 1

    class Bad:
        def __init__(self):
            self.state = None

    via = ["model", "listener"][ctx.choose(2, "via")]
    order = ["bad-first", "good-first", "good-driven-first", "bad-good-bad"][ctx.choose(4, "order")]

    def make(cls, good, v=None):
        if via == "model":
            return cls(Good(v) if good else Bad())
        return cls(listeners=[Good(v) if good else Bad()])

    def bad_verdict(cls):
        """('rejected', exception type) or ('accepted', state before, outcome of go, state after)."""
        try:
            sm_ = make(cls, False)
        except Exception as e:  # noqa: BLE001
            if type(e).__name__ == "NotDeterministic":
                raise
            return ("rejected", type(e).__name__)
        before = sm_.current_state.id
        try:
            sm_.send("go")
            out = "ret"
        except Exception as e:  # noqa: BLE001
            if type(e).__name__ == "NotDeterministic":
                raise
            out = type(e).__name__
        return ("accepted", before, out, sm_.current_state.id)

    reference = bad_verdict(Gref)  # the same instance as the FIRST instance of an identical class

    def expect_same(when):
        got = bad_verdict(G)
        if got != reference:
            raise Mismatch(f"verdict-on-instance-depends-on-earlier-instances:{via}:{when}", f"an instance whose {via} does not provide the guard `permit`: as the first instance of the class {reference}, {when} {got}")
        ctx.cover("bad-instance-verdict-stable")

    def good_works(when):
        v = ctx.sym_bool(f"permit.{when}")
        g = make(G, True, v)
        try:
            g.send("go")
            moved = True
        except g.TransitionNotAllowed:
            moved = False
        want = True if v else False
        if moved != want or g.current_state.id != ("b" if want else "a"):
            raise Mismatch(f"model-guard-ignored:{via}:{when}", f"permit={want}: moved={moved}, state {g.current_state.id}")
        ctx.cover("model-guard-decides")

    if order == "bad-first":
        expect_same("as the first instance")
        good_works("after-bad")
    elif order == "good-first":
        make(G, True, True)
        expect_same("after a good instance was created")
    elif order == "good-driven-first":
        good_works("first")
        expect_same("after a good instance was created and driven")
        good_works("last")
    else:
        expect_same("as the first instance")
        good_works("middle")
        expect_same("after a rejected and a good instance")


def run_same_enum(ctx, params):
    """Two unrelated classes describe their states with the same enum (same initial / final members): each keeps its
    own transitions, events and behaviour, whichever is defined or instantiated first."""
    import enum

    from statemachine import StateMachine
    from statemachine.states import States

    with ctx.notracing():
        reset_process_caches()
        Color = enum.Enum("Color", [("r", 1), ("g", 2), ("b", 3)])
    use_inst = ctx.choose(2, "use_enum_instance") == 1
    order = ["E1-E2-i1", "E1-i1-E2", "E2-E1-i1"][ctx.choose(3, "order")]

    def make_E1():
        class E1(StateMachine):
            s = States.from_enum(Color, initial=Color.r, final=Color.b, use_enum_instance=use_inst)
            go = s.r.to(s.g, cond="ok")
            end = s.g.to(s.b)

            def ok(self):
                return self.v

        return E1

    def make_E2():
        class E2(StateMachine):
            s = States.from_enum(Color, initial=Color.r, final=Color.b, use_enum_instance=use_inst)
            jump = s.r.to(s.b)
            hop = s.r.to(s.g)
            stay = s.g.to.itself()
            leave = s.g.to(s.b)

        return E2

    e1 = None
    if order == "E2-E1-i1":
        E2 = make_E2()
        E2().send("jump")
        E1 = make_E1()
    else:
        E1 = make_E1()
        if order == "E1-i1-E2":
            e1 = E1()
        E2 = make_E2()
        e2 = E2()
        e2.send("jump")
    if e1 is None:
        e1 = E1()
    view = {st.id: sorted((t.target.id, str(t.event)) for t in st.transitions) for st in E1.states}
    want_view = {"r": [("g", "go")], "g": [("b", "end")], "b": []}
    if view != want_view or sorted(str(e) for e in E1.events) != ["end", "go"]:
        raise Mismatch(f"class-definition-changed-by:class-from-same-enum:{order}", f"E1's transitions {view} (expected {want_view}), events {sorted(str(e) for e in E1.events)}")
    try:
        allowed = sorted(str(e) for e in e1.allowed_events)
    except AttributeError as e:
        raise Mismatch(f"allowed-events-broken-by:class-from-same-enum:{order}", str(e))
    if allowed != ["go"]:
        raise Mismatch(f"allowed-events-changed-by:class-from-same-enum:{order}", f"{allowed}")
    e1.v = ctx.sym_bool("ok")
    try:
        e1.send("jump")
        raise Mismatch(f"foreign-event-accepted:class-from-same-enum:{order}", f"E1 instance accepted E2's event, now in {e1.current_state.id}")
    except e1.TransitionNotAllowed:
        pass
    try:
        e1.send("go")
        moved = True
    except e1.TransitionNotAllowed:
        moved = False
    if moved != (True if e1.v else False) or e1.current_state.id != ("g" if e1.v else "r"):
        raise Mismatch(f"behaviour-changed-by:class-from-same-enum:{order}", f"ok={bool(e1.v)}: moved={moved}, state {e1.current_state.id}")
    want_val = (Color.g if use_inst else 2) if moved else (Color.r if use_inst else 1)
    if e1.current_state_value != want_val:
        raise Mismatch(f"state-value-changed-by:class-from-same-enum:{order}", f"{e1.current_state_value!r}, expected {want_val!r}")
    ctx.cover("classes-from-same-enum")


def run(ctx, params):
    if params.get("kind") == "same-enum":
        return run_same_enum(ctx, params)
    if params.get("kind") == "model-guard":
        return run_model_guard(ctx, params)
    with ctx.notracing():
        reset_process_caches()
        A = make_A()
        base_transitions = {s.id: [(t.target.id, str(t.event)) for t in s.transitions] for s in A.states}
        base_events = sorted(str(e) for e in A.events)
    # A's model carries an instance-level hook; another machine over a model of the same class (with other
    # instance-level hooks) may have been created before
    class Mdl:
        def __init__(self):
            self.state = None

    pre = ctx.choose(4, "pre")
    if pre == 3:
        # an unrelated class with A's qualified names whose callbacks differ from A's only in keyword-only parameters
        # is defined, instantiated and driven BEFORE A is ever instantiated
        K = make_B_kwonly()
        kb = K()
        kb.send("go", 1, other="first")
        ctx.cover("same-names-kwonly-first")
    elif pre:
        m0 = Mdl()
        if pre == 1:
            m0.before_go = lambda: None
        o = A(m0)
        o.vals["ok"] = True
        o.send("go", 0)
        ctx.cover("model-of-same-class-before")
    mdl = Mdl()
    hook_calls = []
    mdl.after_go = lambda x: hook_calls.append(x)
    sm = A(mdl)
    vals = sm.vals
    cur = "a"
    done = []
    for k in range(params["steps"]):
        d = DISTURBERS[params["d1"] if k == 0 else params["d2"] if k == 1 else 0]
        disturb.pending_inner = None
        disturb.subject = sm
        disturb(ctx, d, A, done)
        if disturb.pending_inner is not None:
            sm.inner = disturb.pending_inner
        x = ctx.sym_int(f"x{k}")
        okv = ctx.sym_bool(f"ok{k}")
        vals["ok"] = okv
        del sm.trace[:]
        # structure first: A's own definition must be what it was
        now = {s.id: [(t.target.id, str(t.event)) for t in s.transitions] for s in A.states}
        tag = "+".join(done) or "none"
        if now != base_transitions:
            raise Mismatch(f"class-definition-changed-by:{done[-1] if done else '?'}", f"A's transitions were {base_transitions}, now {now}", {"after": done})
        if sorted(str(e) for e in A.events) != base_events:
            raise Mismatch(f"class-events-changed-by:{done[-1] if done else '?'}", f"A.events now {sorted(str(e) for e in A.events)}")
        try:
            allowed = sorted(str(e) for e in sm.allowed_events)
        except AttributeError as e:
            raise Mismatch(f"allowed-events-broken-by:{done[-1] if done else '?'}", str(e))
        try:
            res = sm.send("go", x, flag=k)
        except TypeError as e:
            raise Mismatch(f"argument-binding-changed-by:{done[-1] if done else '?'}", f"send('go', x, flag={k}) raised TypeError: {e}", {"after": done})
        nxt = NEXT[(cur, (True if okv else False) if cur == "a" else None)]
        exp_trace = ([("ok", x, False)] if cur == "a" else []) + [("on_go", x, cur, k), ("enter", nxt)]
        got = sm.trace
        ok_trace = len(got) == len(exp_trace) and all(
            g[0] == e[0] and all((gi is ei) or (gi == ei) for gi, ei in zip(g[1:], e[1:])) and len(g) == len(e) for g, e in zip(got, exp_trace)
        )
        if not ok_trace:
            raise Mismatch(f"behaviour-changed-by:{done[-1] if done else 'nothing'}", f"A's callbacks: expected {[e[0] for e in exp_trace]} with A's own argument binding, got {[g[0] for g in got]}", {"after": done, "got": repr(got)[:300]})
        if not (isinstance(res, tuple) and res[0] == "A" and (res[1] is x or res[1] == x) and res[2] == k):
            raise Mismatch(f"result-changed-by:{done[-1] if done else 'nothing'}", f"send returned {res!r}")
        if len(hook_calls) != k + 1 or not (hook_calls[-1] is x or hook_calls[-1] == x):
            raise Mismatch(f"model-instance-hook-lost:pre={pre}", f"the after_go hook set on A's own model instance was called {len(hook_calls)} time(s) after {k + 1} event(s)")
        if sm.current_state.id != nxt:
            raise Mismatch(f"state-changed-by:{done[-1] if done else 'nothing'}", f"expected {nxt}, in {sm.current_state.id}")
        ctx.cover("binding-checked")
        cur = nxt
    # an instance of A created only now (after every disturbance) is A as well
    late = A()
    late.vals["ok"] = vals["ok"] = ctx.sym_bool("ok.late")
    xl = ctx.sym_int("x.late")
    try:
        rl = late.send("go", xl, flag="late")
    except Exception as e:  # noqa: BLE001
        if type(e).__name__ == "NotDeterministic":
            raise
        raise Mismatch(f"late-instance-broken-by:{'+'.join(d for d in done if d != 'none') or 'nothing'}", f"A() created after the disturbances: send raised {type(e).__name__}: {str(e)[:150]}")
    want = "b" if late.vals["ok"] else "c"
    names = [t[0] for t in late.trace]
    if late.current_state.id != want or names != ["enter", "ok", "on_go", "enter"] or not (isinstance(rl, tuple) and rl[0] == "A" and rl[2] == "late"):
        raise Mismatch(f"late-instance-broken-by:{'+'.join(d for d in done if d != 'none') or 'nothing'}", f"A() created after the disturbances: state {late.current_state.id} (expected {want}), callbacks {names}, result {rl!r}")
    if not done or all(d == "none" for d in done):
        ctx.cover("undisturbed")
    ctx.note({"disturbers": done, "final": cur})


def disturb(ctx, d, A, done):
    from statemachine import State, StateMachine

    done.append(d)
    if d == "none":
        return
    if d == "class-with-clashing-state-ids":
        # an unrelated machine whose *state ids* equal the names of A's guard and callbacks
        class Clash(StateMachine):
            ok = State(initial=True)
            on_go = State()
            vals = State()
            move = ok.to(on_go) | on_go.to(vals) | vals.to(ok)

        Clash().send("move")
        ctx.cover("clashing-state-ids")
        return
    if d == "sibling-with-async-listener":
        class AL:
            def __init__(self):
                self.seen = []

            async def after_go(self, x):
                self.seen.append(x)

        al = AL()
        sib = A(listeners=[al])
        sib.vals["ok"] = True
        sib.send("go", 7)
        if al.seen != [7] or sib.current_state.id != "b":
            raise Mismatch("sibling-async-listener-not-awaited", f"a sibling instance built with a coroutine listener: listener saw {al.seen}, state {sib.current_state.id}")
        ctx.cover("async-sibling")
        return
    if d == "other-driven-inside-callback":
        # while A is inside its next `go`, a second instance is created and driven from A's own callback
        def inner(a_machine):
            other = A()
            other.vals["ok"] = True
            r1 = other.send("go", 41, flag="in")
            if other.current_state.id != "b" or r1 != ("A", 41, "in"):
                raise Mismatch("other-machine-inert-while-first-is-busy", f"a machine created and driven from inside another machine's callback: state {other.current_state.id}, result {r1!r}")
            a_machine.trace_mark = True

        sm_holder = done  # noqa: F841
        disturb.pending_inner = inner
        ctx.cover("driven-inside-callback")
        return
    if d == "sibling-other-start-value":
        s1 = A(start_value="b")
        s2 = A()
        if s1.current_state.id != "b" or s2.current_state.id != "a":
            raise Mismatch("sibling-start-value-leaks", f"A(start_value='b') is in {s1.current_state.id}, a later A() in {s2.current_state.id}")
        s3 = A(start_value="c")
        if s3.current_state.id != "c":
            raise Mismatch("sibling-start-value-leaks", f"A(start_value='c') after A() is in {s3.current_state.id}")
        ctx.cover("sibling-start-values")
        return
    if d in ("define-same-names", "drive-same-names"):
        B = make_B_same_names()
        ctx.cover("same-names-defined")
        if d == "drive-same-names":
            b = B()
            try:
                b.send("go", 1, 2)
            except (b.TransitionNotAllowed, TypeError):
                pass
        return
    if d == "drive-same-names-refusing":
        R = make_B_refusing()
        r = R()
        for ev in ("go", "nope"):
            try:
                r.send(ev)
                raise Mismatch("same-named-class-broken", f"the unrelated class accepted {ev} in its state a")
            except r.TransitionNotAllowed:
                pass
        r.send("back")
        if r.current_state.id != "c":
            raise Mismatch("same-named-class-broken", f"after back: {r.current_state.id}")
        ctx.cover("same-names-refusing")
        return
    if d == "sibling-sends-my-event-object":
        # a sibling is sent an event OBJECT obtained from the machine under test (sm.allowed_events / sm.events):
        # the sibling moves, the machine the object was taken from does not
        subject = disturb.subject
        before = subject.current_state.id
        evs = [e for e in subject.allowed_events if str(e) == "go"] or [e for e in subject.events if str(e) == "go"]
        sib = A()
        sib.vals["ok"] = True
        sib.send(evs[0], 5, flag="sib")
        if sib.current_state.id != "b" or subject.current_state.id != before:
            raise Mismatch("event-object-drove-the-instance-it-was-taken-from", f"sibling.send(<go taken from A's allowed_events>): sibling in {sib.current_state.id} (expected b), A moved from {before} to {subject.current_state.id}")
        del subject.trace[:]
        ctx.cover("sibling-sent-event-object")
        return
    if d == "second-instance":
        other = A()
        other.vals["ok"] = True
        other.send("go", 99, flag="other")
        other.send("go", 98)
        ctx.cover("second-instance")
        return
    if d == "subclass-new-event":
        class Sub(A):
            d_ = State()
            extra = A.a.to(d_) | d_.to(A.a)

        ctx.cover("subclass-defined")
        return
    if d == "subclass-any":
        class Sub2(A):
            z = State()
            reset = A.a.from_.any()
            into = A.b.to(z) | z.to(A.a)

        ctx.cover("subclass-defined")
        return
    if d == "define-other-signature-lambda":
        class L(StateMachine):
            a = State(initial=True)
            b = State()
            go = a.to(b, cond=lambda x=1, *a, **k: True) | b.to(a, cond=lambda *, x=2: True)

        inst = L()
        inst.send("go", 5)
        return
