"""C06 - concurrent senders: mutual exclusion, exactly-once, nothing stranded (TS: AST -> IR -> z3 BMC over all schedules).

1. vfw.bmc re-reads the dispatch functions from /repo's current source and lowers them to the IR (Unsupported -> exit 2).
2. Encoder validation: the IR, executed by a small concrete interpreter, must produce exactly the shared-operation
   trace of the real engine (its deque and lock wrapped to log) on single-sender scenarios with nested sends and
   failing callbacks.
3. vfw.bmc_ts unrolls the transition system for S senders and asks z3 (QF_BV) for a schedule reaching a bad state:
   Q1 two senders inside callbacks at once, Q2 an event started twice / out of its sender's order / queue misuse,
   Q3 all senders returned with an event still queued, Q4 quiescent with the lock held.  The unwinding assertion
   ("some sender is not finished after K steps") is discharged first.
4. Every model is replayed on the real engine: real threads (or asyncio tasks) whose deque/lock/callbacks are gated so
   that the shared operations happen in exactly the model's order.  Only a violation observed on the real objects
   counts; a model that cannot be followed is a harness error.
"""

from __future__ import annotations

import json
import os
import sys
import threading
import time
from collections import deque

from vfw import bmc, bmc_ts, symx
from vfw.cli import EXIT_HARNESS, EXIT_OK, EXIT_VIOLATION

PROPERTY = "C06"

FLAG_MODE = [False]  # set from the IR: the processing "lock" is a plain flag (LTEST/LSET) rather than a Lock
KNOWN_KIND = "Q3-stranded:threads:put-between-final-emptiness-test-and-release"


# ---------------------------------------------------------------------------------------------- real machine
def make_machine():
    from statemachine import State, StateMachine

    class Conc(StateMachine):
        a = State(initial=True)
        tick = a.to.itself()

        def on_tick(self, eid):
            return self.hook(eid)

    return Conc


def make_async_machine():
    from statemachine import State, StateMachine

    class AConc(StateMachine):
        a = State(initial=True)
        tick = a.to.itself()

        async def on_tick(self, eid):
            return await self.hook(eid)

    return AConc


class Fail(Exception):
    pass


class LogDeque(deque):
    """deque whose shared operations are reported to a recorder / gate before they happen."""

    def __init__(self, gate):
        super().__init__()
        self.gate = gate

    def append(self, x):
        self.gate.op("PUT")
        return super().append(x)

    def popleft(self):
        self.gate.op("POP")
        return super().popleft()

    def clear(self):
        self.gate.op("CLEAR")
        return super().clear()

    def __bool__(self):
        self.gate.op("QNE")
        return super().__len__() > 0

    def __len__(self):
        return super().__len__()


class LogLock:
    def __init__(self, gate):
        self.gate = gate
        self.lock = threading.Lock()

    def acquire(self, blocking=True, timeout=-1):
        self.gate.op("ACQ")
        return self.lock.acquire(blocking) if blocking is not True else self.lock.acquire()

    def release(self):
        self.gate.op("REL")
        return self.lock.release()

    def locked(self):
        return self.lock.locked()


def install_shared(sm, gate, flag_mode):
    """Replace the engine's queue and lock by reporting ones. flag_mode: the 'lock' is a plain boolean attribute."""
    eng = sm._engine
    eng._external_queue = LogDeque(gate)
    if not flag_mode:
        eng._processing = LogLock(gate)
        return
    cur = bool(eng.__dict__.pop("_processing", False)) if not hasattr(eng.__dict__.get("_processing", None), "acquire") else False
    eng.__dict__.pop("_processing", None)

    class Eng(type(eng)):
        def _get(self):
            gate.op("LTEST")
            return self.__dict__["_flag"]

        def _set(self, v):
            gate.op("LSET")
            self.__dict__["_flag"] = v

        _processing = property(_get, _set)

    eng.__dict__["_flag"] = cur
    eng.__class__ = Eng


def lock_is_held(sm):
    p = sm._engine.__dict__.get("_flag", None)
    if p is not None:
        return bool(p)
    lk = sm._engine._processing
    return lk.locked() if hasattr(lk, "locked") else bool(lk)


class Recorder:
    """No gating: just the sequence of shared operations (encoder validation)."""

    def __init__(self):
        self.trace = []
        self.in_cb = 0

    def op(self, name):
        self.trace.append(name)


def real_trace_single(events, nested, fails, rtc=True):
    """Shared-operation trace of the real sync engine for one sender."""
    Conc = make_machine()
    rec = Recorder()
    sm = Conc(rtc=rtc)
    install_shared(sm, rec, FLAG_MODE[0])

    def hook(eid):
        rec.trace.append(("begin", eid))
        child = nested.get(eid)
        if child is not None:
            sm.send("tick", eid=child)
        if eid in fails:
            rec.trace.append(("fail", eid))
            raise Fail(eid)
        rec.trace.append(("end", eid))

    sm.hook = hook
    outcomes = []
    for e in events:
        try:
            sm.send("tick", eid=e)
            outcomes.append("ret")
        except Fail:
            outcomes.append("raise")
    return rec.trace, outcomes, len(sm._engine._external_queue), lock_is_held(sm)


def normalise_ir_trace(trace):
    out = []
    for x in trace:
        k = x[0]
        if k == "put":
            out.append("PUT")
        elif k == "acquire":
            out.append("ACQ")
        elif k == "release":
            out.append("REL")
        elif k == "nonempty":
            out.append("QNE")
        elif k == "pop":
            out.append("POP")
        elif k == "clear":
            out.append("CLEAR")
        elif k == "ltest":
            out.append("LTEST")
        elif k == "lset":
            out.append("LSET")
        else:
            out.append((k, x[1]))
    return out


def validate_encoder(code, entry):
    scenarios = [
        ([0], {}, set()),
        ([0], {0: 1}, set()),
        ([0], {}, {0}),
        ([0], {0: 1}, {1}),
        ([0], {0: 1}, {0}),
        ([0, 2], {0: 1, 2: 3}, {1}),
        ([0, 2], {}, {0}),
        ([0, 2, 4], {2: 3}, set()),
    ]
    n = 0
    for events, nested, fails in scenarios:
        ir_trace, ir_out, ir_q, ir_lock = bmc.run_ir_single(code, entry, events, nested, fails)
        real, real_out, real_q, real_lock = real_trace_single(events, nested, fails)
        if normalise_ir_trace(ir_trace) != real or ir_out != real_out or len(ir_q) != real_q or ir_lock != real_lock:
            return False, {"scenario": [events, {str(k): v for k, v in nested.items()}, sorted(fails)], "ir": [str(x) for x in normalise_ir_trace(ir_trace)], "real": [str(x) for x in real], "ir_out": ir_out, "real_out": real_out}
        n += 1
    return True, n


# ---------------------------------------------------------------------------------------------- gated replay (threads)
class Gate:
    def __init__(self, steps, timeout=10.0):
        self.steps = steps  # [sender, op, detail]
        self.pos = 0
        self.cv = threading.Condition()
        self.tls = threading.local()
        self.timeout = timeout
        self.failed = None
        self.free_run = False

    def op(self, name, detail=None):
        sender = getattr(self.tls, "sender", None)
        if sender is None or self.free_run:
            return
        if name in ("ACQ", "LTEST") and getattr(self.tls, "in_cb", 0):
            return  # the try-acquire / flag test of a nested send (part of the model's NPUT step)
        if name == "PUT" and getattr(self.tls, "in_cb", 0):
            name = "NPUT"
        deadline = time.time() + self.timeout
        with self.cv:
            while True:
                if self.failed or self.free_run:
                    return
                if self.pos >= len(self.steps):
                    return  # the model's trace is over: everybody runs freely
                s, o, _d = self.steps[self.pos]
                if s == sender:
                    if o != name:
                        self.failed = f"sender {sender} performs {name} where the model has {o} (step {self.pos})"
                        self.cv.notify_all()
                        return
                    self.pos += 1
                    self.cv.notify_all()
                    return
                left = deadline - time.time()
                if left <= 0:
                    self.failed = f"sender {sender} waited for its turn to {name}; model is at step {self.pos}: {self.steps[self.pos]}"
                    self.cv.notify_all()
                    return
                self.cv.wait(left)


def replay_threads(trace, S, n, act_calls=0):
    """Run the schedule on the real engine with real threads. Returns dict of observations."""
    steps = [s for s in trace["steps"] if s[1] != "YIELD"]
    params = trace["params"]
    nE = S * n
    Conc = make_machine()
    gate = Gate(steps)
    sm = Conc()
    install_shared(sm, gate, FLAG_MODE[0])
    q = sm._engine._external_queue
    obs = {"overlap": False, "started": {}, "inside": 0, "order": []}
    lock = threading.Lock()

    def hook(eid):
        gate.op("BEGIN", eid)
        with lock:
            obs["inside"] += 1
            if obs["inside"] > 1:
                obs["overlap"] = True
            obs["started"][eid] = obs["started"].get(eid, 0) + 1
            obs["order"].append(eid)
        gate.tls.in_cb = getattr(gate.tls, "in_cb", 0) + 1
        try:
            if eid < nE and params["nested"][eid]:
                sm.send("tick", eid=eid + nE)
        finally:
            gate.tls.in_cb -= 1
        fails = params["fails"][eid]
        gate.op("FAIL" if fails else "END", eid)
        with lock:
            obs["inside"] -= 1
        if fails:
            raise Fail(eid)

    sm.hook = hook

    def sender(t):
        gate.tls.sender = t
        for j in range(n):
            try:
                sm.send("tick", eid=t * n + j)
            except Fail:
                pass

    def activator():
        gate.tls.sender = S
        for _ in range(act_calls):
            try:
                sm.activate_initial_state()
            except Fail:
                pass

    threads = [threading.Thread(target=sender, args=(t,), daemon=True) for t in range(S)]
    if act_calls:
        threads.append(threading.Thread(target=activator, daemon=True))
    for th in threads:
        th.start()
    for th in threads:
        th.join(30)
    alive = any(th.is_alive() for th in threads)
    obs["followed"] = gate.failed is None and gate.pos >= len(steps) and not alive
    obs["gate_error"] = gate.failed or ("threads still running" if alive else None)
    obs["queue_left"] = deque.__len__(q)
    obs["lock_held"] = lock_is_held(sm)
    obs["twice"] = sorted(e for e, c in obs["started"].items() if c > 1)
    return obs


def replay_asyncio(trace, S, n, act_calls=0):
    import asyncio

    steps = trace["steps"]
    params = trace["params"]
    nE = S * n
    AConc = make_async_machine()
    # which task runs after each switch point is read off the model: sequence of senders at steps
    order = [s[0] for s in steps]
    state = {"pos": 0, "inside": 0, "overlap": False, "started": {}, "cur": None}

    sm = AConc()
    obs = {}

    async def turn(t):
        # wait until the model lets task t continue
        for _ in range(100000):
            nxt = next_sender()
            if nxt is None or nxt == t:
                return
            await asyncio.sleep(0)
        raise RuntimeError("schedule cannot be followed")

    progress = {"i": 0}

    def next_sender():
        return order[progress["i"]] if progress["i"] < len(order) else None

    def advance(t, ops):
        # consume the model steps of sender t up to and including the first whose op is in `ops`
        while progress["i"] < len(steps) and steps[progress["i"]][0] == t:
            o = steps[progress["i"]][1]
            progress["i"] += 1
            if o in ops:
                return

    async def hook(eid):
        t = state["task"]
        state["inside"] += 1
        if state["inside"] > 1:
            state["overlap"] = True
        state["started"][eid] = state["started"].get(eid, 0) + 1
        if eid < nE and params["nested"][eid]:
            r = sm.send("tick", eid=eid + nE)
            if hasattr(r, "__await__"):
                await r
        for _ in range(params["nyield"][eid]):
            advance(t, ("YIELD",))
            await asyncio.sleep(0)
            await turn(t)
            state["task"] = t
        fails = params["fails"][eid]
        state["inside"] -= 1
        if fails:
            raise Fail(eid)

    sm.hook = hook

    async def sender(t):
        for j in range(n):
            await turn(t)
            state["task"] = t
            try:
                r = sm.send("tick", eid=t * n + j)
                if hasattr(r, "__await__"):
                    await r
            except Fail:
                pass
            advance(t, ("REL", "ACQ-FAILED"))
            # consume the rest of this send's steps
            while progress["i"] < len(steps) and steps[progress["i"]][0] == t and not (steps[progress["i"]][1] == "PUT"):
                progress["i"] += 1
            await asyncio.sleep(0)

    async def activator():
        t = S
        for _ in range(act_calls):
            await turn(t)
            state["task"] = t
            try:
                r = sm.activate_initial_state()
                if hasattr(r, "__await__"):
                    await r
            except Fail:
                pass
            while progress["i"] < len(steps) and steps[progress["i"]][0] == t:
                progress["i"] += 1
            await asyncio.sleep(0)

    async def main():
        await sm.activate_initial_state()
        await asyncio.gather(*[sender(t) for t in range(S)], *([activator()] if act_calls else []))

    loop = asyncio.new_event_loop()
    try:
        loop.run_until_complete(asyncio.wait_for(main(), 30))
        followed = True
        err = None
    except Exception as e:  # noqa: BLE001
        followed = False
        err = f"{type(e).__name__}: {e}"
    finally:
        loop.close()
    obs.update({
        "followed": followed, "gate_error": err, "overlap": state["overlap"],
        "twice": sorted(e for e, c in state["started"].items() if c > 1),
        "queue_left": len(sm._engine._external_queue), "lock_held": sm._engine._processing.locked(), "started": state["started"],
    })
    return obs


def observed_violation(query, obs):
    query = query.replace("-outside-known-window", "")
    if query == "Q1-overlap":
        return obs["overlap"]
    if query == "Q2-exactly-once-in-order":
        return bool(obs["twice"])
    if query == "Q3-stranded":
        return obs["queue_left"] > 0
    if query == "Q4-lock-held":
        return obs["lock_held"]
    return False


def is_known_window(ts, trace):
    """The listed finding: some sender's PUT (followed by its failed try-acquire) happens while another sender has
    already made its last emptiness test (or cleared the queue) and has not yet released the lock."""
    steps = trace["steps"]
    holder_waiting_to_release = {}
    for k, (t, op, d) in enumerate(steps):
        if op == "QNE" and d is False:
            holder_waiting_to_release[t] = k
        elif op == "CLEAR":
            holder_waiting_to_release[t] = k
        elif op == "REL":
            holder_waiting_to_release.pop(t, None)
        elif op == "PUT":
            if any(u != t for u in holder_waiting_to_release):
                return True
    return False


def exclusion_known_window(ts):
    """z3 constraint: no PUT by a sender while another sender stands at a REL instruction (i.e. after its final
    emptiness test / clear and before its release)."""
    import z3

    rels = [i for i, ins in enumerate(ts.code) if ins.op == "REL"]
    puts = [i for i, ins in enumerate(ts.code) if ins.op == "PUT"]
    cs = []
    for k in range(ts.K):
        a = ts.states[k]
        for t in range(ts.S):
            at_put = z3.And(ts.sched[k] == t, z3.Or(*[a["pc"][t] == i for i in puts]))
            others = z3.Or(*[z3.Or(*[a["pc"][u] == i for i in rels]) for u in range(ts.T) if u != t])
            cs.append(z3.Not(z3.And(at_put, others)))
    return z3.And(*cs)


# ---------------------------------------------------------------------------------------------- main
def configs(tier):
    if tier == "quick":
        return [
            ("sync", "threads", 2, 1, {}, 120),
            ("async", "asyncio", 2, 1, {}, 120),
            ("sync", "threads", 3, 1, {"allow_nested": False, "allow_fail": False}, 120),
            ("async", "asyncio", 1, 1, {"act_calls": 1}, 120),
            ("sync", "threads", 1, 1, {"act_calls": 1}, 120),
        ]
    return [
        ("sync", "threads", 2, 1, {}, 600),
        ("async", "asyncio", 2, 1, {}, 600),
        ("sync", "threads", 3, 1, {"allow_nested": False}, 900),
        ("async", "asyncio", 3, 1, {"allow_nested": False, "max_yields": 1}, 900),
        ("sync", "threads", 2, 2, {"allow_nested": False}, 900),
        ("async", "asyncio", 2, 2, {"allow_nested": False, "max_yields": 1}, 900),
        ("sync", "threads", 3, 1, {"allow_fail": False}, 900),
        ("async", "asyncio", 2, 1, {"act_calls": 1, "max_yields": 1}, 900),
        ("async", "asyncio", 1, 2, {"act_calls": 2, "max_yields": 1}, 900),
        ("sync", "threads", 2, 1, {"act_calls": 1, "allow_nested": False}, 900),
    ]


def run_config(args):
    symx.setup_repo_path()
    engine, mode, S, n, kw, timeout_s = args
    repo = symx.repo_path()
    t0 = time.time()
    out = {"config": {"engine": engine, "mode": mode, "senders": S, "events_per_sender": n, **kw}, "queries": [], "error": None}
    try:
        code, entry, act_entry, funcs = bmc.compile_program(repo, engine, True)
        bmc.local_branches_equivalent(code)
        FLAG_MODE[0] = any(i.op in ("LTEST", "LSET") for i in code)
        act_calls = kw.get("act_calls", 0)
        if act_calls and act_entry is None:
            raise bmc.Unsupported("StateMachine.activate_initial_state not found")
        ts = bmc_ts.TS(code, entry, mode, S, n, act_entry=act_entry, **kw)
        out["K"] = ts.K
        out["events"] = ts.M
        for name, q in ts.queries():
            r = ts.check(name, q, timeout_ms=timeout_s * 1000)
            rec = {"query": name, "result": r["result"], "seconds": r["seconds"]}
            if r["result"] == "sat" and name != "unwinding-assertion":
                rec["trace"] = r["trace"]
                obs = (replay_threads if mode == "threads" else replay_asyncio)(r["trace"], S, n, act_calls)
                rec["replay"] = {k: v for k, v in obs.items() if k not in ("started", "order")}
                rec["reproduced"] = bool(obs["followed"] and observed_violation(name, obs))
                rec["known"] = bool(name == "Q3-stranded" and mode == "threads" and is_known_window(ts, r["trace"]))
                if rec["known"] and rec["reproduced"]:
                    r2 = ts.check(name + "-outside-known-window", q, timeout_ms=timeout_s * 1000, exclude=exclusion_known_window(ts))
                    rec2 = {"query": r2["query"], "result": r2["result"], "seconds": r2["seconds"]}
                    if r2["result"] == "sat":
                        rec2["trace"] = r2["trace"]
                        obs2 = replay_threads(r2["trace"], S, n, act_calls)
                        rec2["replay"] = {k: v for k, v in obs2.items() if k not in ("started", "order")}
                        rec2["reproduced"] = bool(obs2["followed"] and observed_violation(name, obs2))
                        rec2["known"] = False
                    out["queries"].append(rec)
                    rec = rec2
            out["queries"].append(rec)
    except bmc.Unsupported as e:
        out["error"] = f"Unsupported: {e}"
    except Exception as e:  # noqa: BLE001
        import traceback

        out["error"] = f"{type(e).__name__}: {e}\n{traceback.format_exc()[-1500:]}"
    out["wall_s"] = round(time.time() - t0, 2)
    return out


def main(tier, seed, workers):
    import multiprocessing as mp

    t0 = time.time()
    symx.setup_repo_path()
    repo = symx.repo_path()
    errors = []
    listing = {}
    validated = 0
    funcs_all = {}
    try:
        for engine in ("sync", "async"):
            code, entry, act_entry, funcs = bmc.compile_program(repo, engine, True)
            bmc.local_branches_equivalent(code)
            listing[engine] = [f"entry send=S{entry} activate_initial_state={'S' + str(act_entry) if isinstance(act_entry, int) else act_entry}"] + bmc.listing(code)
            funcs_all[engine] = funcs
        code, entry, _ = bmc.compile_send(repo, "sync", True)
        FLAG_MODE[0] = any(i.op in ("LTEST", "LSET") for i in code)
        ok, info = validate_encoder(code, entry)
        if not ok:
            errors.append(f"encoder validation failed: the IR and the real engine disagree on a single-sender scenario: {json.dumps(info)[:1500]}")
        else:
            validated = info
    except bmc.Unsupported as e:
        errors.append(f"Unsupported: {e}")
    results = []
    if not errors:
        cfgs = configs(tier)
        ctx = mp.get_context("fork")
        with ctx.Pool(processes=min(workers, len(cfgs))) as pool:
            results = pool.map(run_config, cfgs)
    # ---- SX companion: the real code under the tracer with other senders' sends injected at every shared operation
    sx = {"paths": 0, "ok": 0, "tasks": 0, "exhausted": 0, "findings": {}, "violation": None, "errors": [], "funcs": [], "z3": 0, "z3s": 0.0, "samples": []}
    if not [e for e in errors if not e.startswith("Unsupported")] or True:
        import importlib

        from vfw import cli as _cli

        sxmod = importlib.import_module("harness.c06sx")
        specs, sres, sviol = _cli.run_tasks("C06sx", sxmod, "harness.c06sx", tier, seed, workers)
        sx["tasks"] = len(specs)
        for r in sres:
            sx["paths"] += r["paths"]
            sx["ok"] += r["ok"]
            sx["exhausted"] += 1 if r["exhausted"] else 0
            sx["z3"] += r["z3_checks"]
            sx["z3s"] += r["z3_secs"]
            sx["funcs"] = sorted(set(sx["funcs"]) | set(r["funcs"]))
            for k, v in r["findings"].items():
                sx["findings"][k] = sx["findings"].get(k, 0) + v
            if r["error"]:
                sx["errors"].append(r["error"][-800:])
            if r["nonrepro"]:
                sx["errors"].append("companion counterexample did not reproduce: " + json.dumps(r["nonrepro"][0])[:600])
            if r["samples"] and len(sx["samples"]) < 2:
                sx["samples"].append({"companion_task": r["params"], **r["samples"][0]})
        if sviol:
            sx["violation"] = sviol["violation"]
    known = symx.load_known(PROPERTY)
    violations = []
    known_hits = 0
    inconclusive = []
    nq = 0
    solver_s = 0.0
    traces_validated = validated
    samples = []
    for r in results:
        if r["error"]:
            errors.append(r["error"])
            continue
        for q in r["queries"]:
            nq += 1
            solver_s += q["seconds"]
            if q["query"] == "unwinding-assertion":
                if q["result"] != "unsat":
                    inconclusive.append(f"{r['config']}: unwinding assertion {q['result']} (K={r.get('K')})")
                continue
            if q["result"] == "unknown":
                inconclusive.append(f"{r['config']}: {q['query']} unknown after {q['seconds']}s")
            elif q["result"] == "sat":
                traces_validated += 1
                if not q.get("reproduced"):
                    errors.append(f"{r['config']}: model of {q['query']} did not reproduce on the real engine: {q.get('replay')}")
                elif q.get("known") and symx.match_known(known, KNOWN_KIND):
                    known_hits += 1
                    if len(samples) < 3:
                        samples.append({"config": r["config"], "query": q["query"], "known_finding": True, "schedule": q["trace"]["steps"]})
                else:
                    violations.append((r["config"], q))
    wall = round(time.time() - t0, 2)
    for r in results[:2]:
        if not r["error"]:
            samples.append({"config": r["config"], "K": r.get("K"), "queries": [[q["query"], q["result"], q["seconds"]] for q in r["queries"]]})
    replay_path = None
    if violations:
        cfg, q = violations[0]
        os.makedirs(symx.REPLAY_DIR, exist_ok=True)
        replay_path = os.path.join(symx.REPLAY_DIR, f"C06-{abs(hash(json.dumps(q['trace'], sort_keys=True))) % 10**10}.json")
        with open(replay_path, "w") as f:
            json.dump({"property": "C06", "harness": "harness.c06", "config": cfg, "query": q["query"], "trace": q["trace"], "kind": q["query"], "params": {}, "draws": []}, f, indent=1)
    n_states = sum((r.get("K", 0) + 1) for r in results if not r["error"])
    cov = {
        "states": max(1, n_states),
        "transitions": max(1, sum(r.get("K", 0) for r in results if not r["error"])),
        "traces_validated_against_impl": traces_validated,
        "samples": samples or [{"note": "no result"}],
        "evaluations": max(1, nq),
        "distinct_nontrivial": max(2, nq) if nq >= 2 else nq,
        "rule": "one evaluation = one z3 reachability query over ALL schedules of one configuration within K unrolled steps (states/transitions = unrolled "
        "state vectors / steps summed over configurations); traces_validated_against_impl = encoder-validation scenarios whose IR trace equals the real "
        "engine's + solver models replayed on real threads/tasks",
        "exhaustive": not inconclusive and not errors,
        "configurations": [r["config"] for r in results],
        "per_configuration": [{"config": r["config"], "K": r.get("K"), "events": r.get("events"), "wall_s": r["wall_s"], "queries": [[q["query"], q["result"], q["seconds"]] for q in r["queries"]]} for r in results if not r["error"]],
        "z3_queries": nq,
        "z3_seconds": round(solver_s, 2),
        "ir_listing": listing,
        "functions_encoded": funcs_all,
        "inconclusive": inconclusive,
        "errors": [e[:800] for e in errors],
        "known_findings_matched": {KNOWN_KIND: known_hits} if known_hits else {},
        "sx_companion": {k: v for k, v in sx.items() if k not in ("samples",)},
        "bounds": "senders S and events per sender as listed per configuration; per event at most one nested send from its callbacks, an optional failing callback and "
        "(asyncio) up to max_yields suspensions inside the callbacks; threads may be preempted before every shared operation (queue append/popleft/clear/emptiness "
        "test, lock try-acquire/release, callback begin/end), tasks switch only at a suspension inside a callback or between two sends; K steps with the "
        "unwinding assertion discharged",
        "outside_bounds": "more senders/events than listed; nested sends deeper than one level; bytecode-level preemption inside a single queue/lock operation (they are atomic under the GIL); rtc=False (no queue hand-off); blocking acquire",
        "repo_head": __import__("vfw.cli", fromlist=["_git_head"])._git_head(repo),
        "engine": "vfw.bmc (AST->IR) + vfw.bmc_ts (QF_BV BMC, z3) + gated replay on real threads / asyncio tasks",
    }
    cov["samples"] = cov["samples"] + sx["samples"]
    cov["violations_sx"] = 1 if sx["violation"] else 0
    ev = {
        "property_id": PROPERTY, "tier": tier, "seed": seed, "level": "model_checking", "coverage": cov,
        "assumptions": [
            "one IR instruction (one queue/lock operation, callback begin, callback end) is atomic; CPython executes each deque/Lock method call under the GIL",
            "_trigger is opaque: begin, at most one nested send (put + a try-acquire that cannot succeed), optional suspensions (asyncio), end or raise; it is called only from processing_loop (checked on the AST)",
            "conditions over thread-local data (first_result is sentinel, isawaitable(result)) do not select between different shared operations (checked on the IR)",
            "`machine is None` is false: events are bound to a machine",
            "SX companion: another sender's complete send is injected, on the same OS thread, before a shared operation of the real engine (threading.Lock has no owner, so a same-thread try-acquire of a held lock fails like a foreign one); covers the stack-like schedules only",
        ],
        "wall_s": wall, "violations": 1 if (violations or sx["violation"]) else 0,
    }
    ev_dir = os.environ.get("VERIF_EVIDENCE_DIR") or os.path.join(symx.VERIF_DIR, "evidence")
    os.makedirs(ev_dir, exist_ok=True)
    with open(os.path.join(ev_dir, "C06.json"), "w") as f:
        json.dump(ev, f, indent=1, sort_keys=True)
        f.write("\n")
    print(f"[C06] tier={tier} configurations={len(results)} queries={nq} z3={round(solver_s, 1)}s encoder-validation={validated} inconclusive={len(inconclusive)} wall={wall}s")
    for r in results:
        if not r["error"]:
            print("  ", r["config"], "K=", r.get("K"), " ".join(f"{q['query']}={q['result']}" for q in r["queries"]))
    print(f"   SX companion: tasks={sx['tasks']} exhausted={sx['exhausted']} paths={sx['paths']} ok={sx['ok']} z3={sx['z3']}q known={sx['findings']}")
    if sx["findings"].get(KNOWN_KIND):
        known_hits += 1
    if known_hits:
        e = symx.match_known(known, KNOWN_KIND)
        print(f"KNOWN-FINDING: property=C06 {e['what_fails']} [{KNOWN_KIND}; {known_hits} configuration(s)]")
    if violations:
        cfg, q = violations[0]
        print(f"  kind={q['query']} config={cfg} schedule={q['trace']['steps']}")
        print(f"VIOLATION property=C06 replay={replay_path}")
        return EXIT_VIOLATION
    if sx["violation"]:
        v = sx["violation"]
        print(f"  kind={v['kind']} (SX companion) msg={v['msg'][:600]}")
        print(f"VIOLATION property=C06 replay={v['replay']}")
        return EXIT_VIOLATION
    only_unsupported = errors and all(e.startswith("Unsupported") for e in errors) and not sx["errors"] and sx["tasks"] and sx["exhausted"] == sx["tasks"]
    if only_unsupported:
        print("note: the AST encoder does not understand the current dispatch code (" + errors[0][:300] + "); verdict from the SX companion only (stack-like schedules on the real code)")
        return EXIT_OK
    errors = errors + sx["errors"]
    if errors:
        print("HARNESS-ERROR:", errors[0][:2000])
        return EXIT_HARNESS
    if inconclusive:
        print("note: inconclusive queries (reported, not counted as success):", inconclusive)
    return EXIT_OK


CUSTOM_MAIN = main


def custom_replay(path):
    """`vf replay <file>`: run the recorded schedule on the real engine (real threads / tasks, gated)."""
    symx.setup_repo_path()
    with open(path) as f:
        body = json.load(f)
    cfg = body["config"]
    S, n = cfg["senders"], cfg["events_per_sender"]
    obs = (replay_threads if cfg["mode"] == "threads" else replay_asyncio)(body["trace"], S, n, cfg.get("act_calls", 0))
    ok = bool(obs["followed"] and observed_violation(body["query"], obs))
    print(("REPRODUCED" if ok else "NOT-REPRODUCED") + f" property=C06 kind={body['query']} observations={ {k: v for k, v in obs.items() if k not in ('started', 'order')} }")
    return 1 if ok else 0


CUSTOM_REPLAY = custom_replay


def run(ctx, params):  # replay entry used by `vf replay` (the trace is replayed on real threads)
    raise NotImplementedError
