"""C10 - the current state is exactly what the user's model stores (SX).

Real code under the tracer: StateMachine.__init__ (model defaulting, start_value, initial activation),
current_state_value getter/setter, current_state, State.for_instance / InstanceState.is_active, _get_initial_state,
BaseEngine.start, _activate (the single assignment between `on` and `enter`).

Solver-enumerated structure: value family of the states, model shape, state_field name, start_value, and a script of
operations (send, external write through the model attribute, write through the setter, write from inside a
callback).  Solver variables: the integer written through the setter (mapped and unmapped values alike).
"""

from __future__ import annotations

import enum

from vfw.ctx import Mismatch

PROPERTY = "C10"


class Color(enum.Enum):
    red = 1
    green = 2
    blue = 3


FAMILIES = {
    "default": (None, None, None),
    "ints": (0, 1, -1),
    "ints2": (5, 0, 7),
    "strs": ("", "x", "y"),
    "tuples": ((), (1,), (2,)),
    "enum": (Color.red, Color.green, Color.blue),
    "falsy-mix": (1, 0, ""),
    "falsy-mix2": ("s", (), 0),
    "bigints": (1000, 70000, -3000),
}


def fresh_equal(v):
    """An equal value that is a different object where Python allows it (ints beyond the small-int cache, tuples and
    strings built at run time): what a value loaded from a database looks like."""
    if type(v) is int:
        return int(str(v))
    if type(v) is tuple:
        return tuple(list(v))
    if type(v) is str:
        return "".join(list(v))
    return v
MODELS = ["none", "plain", "property", "class-default", "falsy-len", "custom-field", "mixin-first"]
IDS = ["s0", "s1", "s2"]
NEXT = {"s0": "s1", "s1": "s2", "s2": "s0"}


def build_machine(values, hook):
    from statemachine import State, StateMachine

    attrs = {}
    sts = []
    for i, sid in enumerate(IDS):
        kw = {"initial": i == 0}
        if values[i] is not None:
            kw["value"] = values[i]
        sts.append(State(**kw))
        attrs[sid] = sts[-1]
    attrs["go"] = sts[0].to(sts[1]) | sts[1].to(sts[2]) | sts[2].to(sts[0])
    attrs["stay"] = sts[0].to.itself() | sts[1].to.itself() | sts[2].to.itself(internal=True)

    def on_transition(self, event, source, target):
        hook("on", self, str(event), source.id, target.id)

    def after_transition(self, event, source, target):
        hook("after", self, str(event), source.id, target.id)

    on_transition.__qualname__ = "C10M.on_transition"
    after_transition.__qualname__ = "C10M.after_transition"
    attrs["on_transition"] = on_transition
    attrs["after_transition"] = after_transition
    return type(StateMachine)("C10M", (StateMachine,), attrs)


def build_model(shape, field):
    writes = []
    if shape == "none":
        return None, writes
    if shape in ("plain", "custom-field"):
        class Plain:
            pass

        m = Plain()
        setattr(m, field, None)
        return m, writes
    if shape == "property":
        class Prop:
            def __init__(self):
                self._stored = None

        def getter(self):
            return self._stored

        def setter(self, v):
            writes.append(v)
            self._stored = v

        setattr(Prop, field, property(getter, setter))
        return Prop(), writes
    if shape == "class-default":
        CD = type("CD", (), {field: None})
        return CD(), writes
    if shape == "mixin-first":
        return "mixin", writes  # built in run(): the object creates its machine itself (MachineMixin)
    if shape == "falsy-len":
        class Bag:
            def __len__(self):
                return 0

        m = Bag()
        setattr(m, field, None)
        return m, writes
    raise AssertionError(shape)


def tasks(tier):
    quick = tier == "quick"
    out = []
    fams = list(FAMILIES)
    falsy = ("ints", "strs", "tuples", "falsy-mix", "falsy-mix2")
    for fam in fams:
        if quick:
            shapes = ["none", "property"] + (["falsy-len"] if fam in falsy else []) + (["plain", "class-default", "custom-field", "mixin-first"] if fam == "ints" else [])
            if fam == "bigints":
                shapes = ["plain", "property"]
        else:
            shapes = MODELS
        for shape in shapes:
            out.append({"family": fam, "model": shape, "ops": 2, "reduced": quick, "subclass_first": fam in ("ints", "strs") and shape == "property"})
    return out


BUDGET = {
    "quick": {"max_secs": 600, "task_secs": 400, "path_secs": 30},
    "thorough": {"max_secs": 3600, "task_secs": 3000, "path_secs": 60},
}
BOUNDS = {
    "quick": "3-state ring (go) with self (stay) and internal (stay on s2) transitions; state values from 9 families (ints beyond the small-int cache, default ids, ints incl. 0 and -1, "
    "strings incl. '', tuples incl. (), enum members, two mixes of distinct falsy values); model shapes {default, plain attribute, property-backed with a "
    "write log, class-level default, falsy object defining __len__, custom state_field, an object that creates its own machine through MachineMixin listed before a base whose initialiser assigns the field}; start_value {absent, each state's value, unmapped}; model empty or already holding any state's value; a script of 2 "
    "operations (the second from a reduced menu) from {send go, send stay, write a valid value (an equal but freshly built object) straight into the model, write a symbolic int / a pool value through the setter, send with a "
    "callback that writes the model during `on` or `after`, assign a State object of this or of another machine class to current_state}; for two families a subclass adding a state is defined first (its value stays unmapped for the base); after every operation field, current_state, current_state_value, is_active of every state and "
    "model identity are compared with the expectation.",
    "thorough": "every family x model shape; both operations from the full menu, every start_value choice also with a pre-stored state (scripts of 3 operations did not finish inside any reasonable budget: 350 k paths in an hour without exhausting one task).",
}
OUTSIDE = "values that are unhashable or compare equal across types (1 vs True); models that reject attribute assignment; Django model fields"
OBLIGATIONS = ["foreign-state-assigned", "resumed-from-stored", "start-value-used", "start-value-falsy", "external-write-seen", "setter-unmapped-rejected", "setter-mapped", "falsy-value-active", "falsy-model-kept", "callback-write", "unmapped-start-rejected"]
ASSUMPTIONS = [
    "class, model and instance are built under the tracer only as far as the constructor is concerned (the class statement is native)",
    "an unmapped value written *directly* into the model cannot be prevented; reading the state then raises InvalidStateValue (checked), the setter refuses it without storing (checked)",
    "a callback that overwrites the model during before/on is itself overwritten by the transition's single assignment; during enter/after its value stays",
]


def run(ctx, params):
    from statemachine.exceptions import InvalidStateValue

    fam = params["family"]
    values = FAMILIES[fam]
    vals = [v if v is not None else IDS[i] for i, v in enumerate(values)]
    shape = params["model"]
    field = "status_code" if shape == "custom-field" else "state"
    sv_choice = ctx.choose(5, "start_value")  # 0 absent, 1..3 state value, 4 unmapped
    cb_plan = {"phase": None, "value": None}

    def hook(phase, sm, ev, src, tgt):
        if cb_plan["phase"] == phase:
            cb_plan["phase"] = None
            setattr(sm.model, field, cb_plan["value"])

    with ctx.notracing():
        cls = build_machine(values, hook)
        model, writes = build_model(shape, field)
        if params.get("subclass_first"):
            # a subclass that adds a state (with a value the base does not map) is defined before the base is used
            from statemachine import State

            class Sub(cls):
                extra = State(value="only-in-subclass")
                jump = cls.s0.to(extra) | extra.to(cls.s0)
    kw = {}
    if field != "state":
        kw["state_field"] = field
    if sv_choice in (1, 2, 3):
        kw["start_value"] = vals[sv_choice - 1]
    elif sv_choice == 4:
        kw["start_value"] = "no-such-value" if fam not in ("default", "strs") else 12345
    tag = f"{fam}:{shape}"
    pre = ctx.choose(4, "prestored") if model is not None else 0  # the model already holds state #pre-1 (persistence)
    if pre:
        with ctx.notracing():
            if shape != "mixin-first":
                setattr(model, field, fresh_equal(vals[pre - 1]))
            del writes[:]
        if sv_choice >= 2 and params["reduced"] or sv_choice == 4:
            return
    if shape == "mixin-first":
        # class Doc(MachineMixin, Row): the mixin comes first, the other base's initialiser assigns the field (an ORM
        # base setting column defaults / the stored value); the machine is created by the mixin, without start_value
        if sv_choice != 0:
            return
        with ctx.notracing():
            import statemachine.registry as registry
            from statemachine.mixins import MachineMixin

            registry._initialized = True  # environment stub: skip django autodiscovery
            registry.register(cls)
            stored0 = fresh_equal(vals[pre - 1]) if pre else None

            class Row:
                def __init__(self):
                    self.state = stored0

            class Doc(MachineMixin, Row):
                state_machine_name = f"{cls.__module__}.{cls.__name__}"

        model = Doc()
        kw = None
    try:
        sm = model.statemachine if kw is None else (cls(model, **kw) if model is not None else cls(**kw))
    except InvalidStateValue:
        if sv_choice == 4:
            ctx.cover("unmapped-start-rejected")
            return
        raise Mismatch(f"valid-start-value-rejected:{tag}", f"start_value={kw.get('start_value')!r} maps to a state but the constructor raised InvalidStateValue")
    if sv_choice == 4:
        raise Mismatch(f"unmapped-start-value-accepted:{tag}", f"start_value={kw['start_value']!r} is not a state value")
    if model is not None and sm.model is not model:
        raise Mismatch(f"user-model-replaced:{shape}", f"a {shape} model object was passed but sm.model is a {type(sm.model).__name__}")
    if shape == "falsy-len":
        ctx.cover("falsy-model-kept")
    mdl = sm.model
    exp = 0 if sv_choice == 0 else sv_choice - 1
    if pre:
        exp = pre - 1
        ctx.cover("resumed-from-stored")
        if writes:
            raise Mismatch(f"stored-state-overwritten:{tag}", f"the model already held {vals[exp]!r}; constructing the machine wrote {writes!r} into it")
    elif sv_choice in (1, 2, 3):
        ctx.cover("start-value-used")
        if not vals[exp]:
            ctx.cover("start-value-falsy")

    def verify(where):
        stored = getattr(mdl, field)
        want = vals[exp]
        if not (type(stored) is type(want) and stored == want):
            kind = "stored-state-not-resumed" if where == "construction" and pre else "start-value-ignored" if where == "construction" and sv_choice else "model-field-wrong"
            falsy = ":falsy" if not want else ""
            raise Mismatch(f"{kind}:{tag}{falsy}", f"after {where}: model.{field} = {stored!r}, expected {want!r}")
        cs = sm.current_state
        if cs.id != IDS[exp] or not (sm.current_state_value == want):
            raise Mismatch(f"current-state-disagrees-with-model:{tag}", f"after {where}: model holds {stored!r} but current_state is {cs.id}")
        active = [sid for sid in IDS if getattr(sm, sid).is_active]
        if active != [IDS[exp]]:
            raise Mismatch(f"is_active-wrong:{tag}", f"after {where}: active states {active}, expected [{IDS[exp]}]")
        if not want:
            ctx.cover("falsy-value-active")

    verify("construction")
    history = []
    for k in range(1 if pre and params["reduced"] else params["ops"]):
        if params["reduced"] and k > 0:
            op = [0, 1, 2, 3][ctx.choose(4, f"op{k}")]
        else:
            op = ctx.choose(6, f"op{k}")
        small = params["reduced"]
        if op == 0:
            sm.send("go")
            exp = (exp + 1) % 3
            history.append("go")
        elif op == 1:
            sm.send("stay")
            history.append("stay")
        elif op == 2:
            j = (exp + 1) % 3 if small and k > 0 else ctx.choose(3, f"w{k}")
            with ctx.notracing():
                written = fresh_equal(vals[j])
            setattr(mdl, field, written)
            exp = j
            ctx.cover("external-write-seen")
            history.append(f"model.{field}={vals[j]!r}")
        elif op == 3:
            if fam in ("ints", "ints2"):
                v = ctx.sym_int(f"sv{k}", -2, 8)
            else:
                pool = ["no-such-value"] if small and k > 0 else [vals[(exp + 2) % 3], vals[exp], "no-such-value", None, "only-in-subclass"] if small else list(vals) + ["no-such-value", None, 99, "only-in-subclass"]
                v = pool[ctx.choose(len(pool), f"sv{k}")]
            hit = None
            for j in range(3):
                if type(v) is type(vals[j]) and v == vals[j]:
                    hit = j
            try:
                sm.current_state_value = v
                ok = True
            except InvalidStateValue:
                ok = False
            if hit is None:
                if ok:
                    raise Mismatch(f"unmapped-value-stored:{tag}", "the setter accepted a value that maps to no state", {"value": v})
                ctx.cover("setter-unmapped-rejected")
            else:
                if not ok:
                    raise Mismatch(f"mapped-value-refused:{tag}", f"the setter refused {vals[hit]!r}")
                exp = hit
                ctx.cover("setter-mapped")
            history.append("setter")
        elif op == 4:
            # a callback of a self / ring transition writes the model while the transition is in progress
            phase = ["on", "after"][ctx.choose(2, f"phase{k}")]
            j = (exp + 2) % 3 if small else ctx.choose(3, f"cbw{k}")
            ev = ["go", "stay"][ctx.choose(2, f"cbev{k}")]
            cb_plan["phase"], cb_plan["value"] = phase, vals[j]
            sm.send(ev)
            tgt = (exp + 1) % 3 if ev == "go" else exp
            exp = tgt if phase == "on" else j
            ctx.cover("callback-write")
            history.append(f"{ev}+write-in-{phase}")
        elif op == 5:
            # assign a State object through the `current_state` setter: one of this machine (valid) or of another class
            which = ctx.choose(3, f"cs{k}")
            if which == 0:
                j = (exp + 1) % 3
                sm.current_state = getattr(cls, IDS[j])
                exp = j
                history.append("current_state=own")
            else:
                from statemachine import State, StateMachine

                with ctx.notracing():
                    class Other(StateMachine):
                        z0 = State(initial=True, value="zz-unmapped")
                        z1 = State(value=vals[exp])  # same value as our current state: still a valid value for us
                        hop = z0.to(z1) | z1.to(z0)

                foreign = Other.z0 if which == 1 else Other.z1
                try:
                    sm.current_state = foreign
                    ok = True
                except InvalidStateValue:
                    ok = False
                if which == 1 and ok:
                    raise Mismatch(f"unmapped-value-stored:{tag}", "sm.current_state = <State of another class with an unmapped value> was stored")
                if which == 2 and not ok:
                    raise Mismatch(f"mapped-value-refused:{tag}", "a State carrying a mapped value was refused")
                ctx.cover("foreign-state-assigned")
                history.append(f"current_state=foreign{which}")
        verify(f"{history}")
    ctx.note({"family": fam, "model": shape, "start_value": sv_choice, "history": history})
