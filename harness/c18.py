"""C18 - the generated diagram is a faithful picture of the machine (SX; weakest fit for a solver, stated in DESIGN).

Real code under the tracer: contrib.diagram.DotGraphMachine.get_graph and its helpers (_state_as_node,
_transition_as_edge, _state_actions, _initial_node/_initial_edge), StateMachine._graph, pydot's object model.

Solver-enumerated structure: template, class vs instance, the current state (every state, by external write and by
driving events).  The graph object is compared with one computed from the abstract machine.
"""

from __future__ import annotations

from vfw.ctx import Mismatch
from vfw.machines import render

PROPERTY = "C18"

AM = {
    "states": [
        {"id": "a", "initial": True, "value": 1},
        {"id": "b", "value": 0},
        {"id": "c", "value": ""},
        {"id": "d", "final": True, "value": "done"},
    ],
    "transitions": [
        {"src": "a", "tgt": "b", "events": ["go"], "cond": ["g1"]},
        {"src": "a", "tgt": "b", "events": ["go"], "cond": ["g2"]},
        {"src": "a", "tgt": "c", "events": ["hop"]},
        {"src": "a", "tgt": "a", "events": ["tick"], "internal": True, "on": ["act"]},
        {"src": "b", "tgt": "c", "events": ["go", "hop"], "unless": ["u1"]},
        {"src": "b", "tgt": "b", "events": ["loop"]},
        {"src": "b", "tgt": "d", "events": ["finish"]},
        {"src": "c", "tgt": "d", "events": ["finish"], "cond": ["g1"], "unless": ["u1"]},
        {"src": "c", "tgt": "c", "events": ["tick"], "internal": True},
        {"src": "c", "tgt": "a", "events": ["back"]},
    ],
    "methods": {"machine": ["g1", "g2", "u1", "act"]},
}
AM2 = {
    "states": [{"id": "x", "initial": True}, {"id": "y"}, {"id": "z", "final": True}, {"id": "w", "final": True}],
    "transitions": [
        {"src": "x", "tgt": "y", "events": ["next"]},
        {"src": "y", "tgt": "x", "events": ["next"], "cond": ["g1"]},
        {"src": "y", "tgt": "z", "events": ["next"]},
        {"src": "x", "tgt": "w", "events": ["abort"]},
        {"src": "y", "tgt": "w", "events": ["abort"]},
        {"src": "y", "tgt": "y", "events": ["poll"], "internal": True, "cond": ["g1"], "on": ["note"]},
        {"src": "y", "tgt": "y", "events": ["poll"], "internal": True, "on": ["log"]},  # same state, same event: the guarded alternative's fallback
    ],
    "methods": {"machine": ["g1", "note", "log"]},
}
AM3 = {  # a non-final state without outgoing transitions (the library only warns) and a final state
    "states": [{"id": "p", "initial": True}, {"id": "q"}, {"id": "r", "final": True}],
    "transitions": [
        {"src": "p", "tgt": "q", "events": ["park"]},
        {"src": "p", "tgt": "r", "events": ["end"], "unless": ["u1"]},
        {"src": "p", "tgt": "q", "events": []},  # declared in the class body but bound to no event: still a transition of the machine
    ],
    "methods": {"machine": ["u1"]},
}
TEMPLATES = {"T1": AM, "T2": AM2, "T3": AM3}


class World:
    def cb(self, provider, name, obj, args, kwargs):
        return True


def tasks(tier):
    out = []
    for t in TEMPLATES:
        out.append({"template": t, "target": "class"})
        for how in ("write", "drive"):
            out.append({"template": t, "target": "instance", "how": how})
    return out


BUDGET = {
    "quick": {"max_secs": 300, "task_secs": 200, "path_secs": 30},
    "thorough": {"max_secs": 900, "task_secs": 800, "path_secs": 60},
}
BOUNDS = {
    "quick": "three templates (4, 4 and 3 states; one with a non-final state that has no outgoing transition; two transitions that differ only in their guard, a transition bound to two events, external self transition, internal "
    "transitions with and without an action, cond and unless guards, one and two final states, state values 1, 0, '' and a string); a transition bound to no event; the class, and an instance (also one created with start_value) in "
    "every state (reached by writing the state and by sending events); nodes, initial pseudo-node and edge, one edge per external transition with source, target, "
    "events and guards, internal transitions inside the node label and not as edges, double border exactly on final states, highlight exactly on the current state.",
    "thorough": "same (exhausted at quick).",
}
OUTSIDE = "rendering to image formats (graphviz binaries); fonts, colours other than the highlight; other templates"
OBLIGATIONS = ["instance-with-start-value", "generator-object-reused", "class-graph", "instance-graph", "current-state-falsy-value", "parallel-edges-differing-in-guard", "internal-in-label", "final-double-border"]
ASSUMPTIONS = [
    "edge labels are parsed as '<events separated by blanks>' optionally followed by a line '[guard, !unless-guard, ...]' (the library's documented rendering)",
    "the highlight is recognised by a fill colour different from the other nodes' and/or a pen width attribute",
]


def strip(s):
    s = str(s)
    if len(s) >= 2 and s[0] == s[-1] == '"':
        s = s[1:-1]
    return s


def run(ctx, params):
    from statemachine.contrib.diagram import DotGraphMachine

    am = TEMPLATES[params["template"]]
    with ctx.notracing():
        import warnings

        box = [World()]
        with warnings.catch_warnings():
            warnings.simplefilter("ignore")
            r = render(am, box, class_name="C18" + params["template"])
    ids = [s["id"] for s in am["states"]]
    cur = None
    if params["target"] == "class":
        subject = r["cls"]
        ctx.cover("class-graph")
    else:
        nonfinal = [s_ for s_ in am["states"] if not s_.get("initial")]
        if params["how"] == "write" and ctx.choose(2, "start_value"):
            sv = nonfinal[0]
            sm = r["cls"](start_value=sv.get("value") if sv.get("value") is not None else sv["id"])
            ctx.cover("instance-with-start-value")
        else:
            sm = r["cls"]()
        ci = ctx.choose(len(ids), "current")
        if params["how"] == "write":
            cur = ids[ci]
            sm.current_state_value = next(s.get("value") if s.get("value") is not None else s["id"] for s in am["states"] if s["id"] == cur)
        else:
            # drive: send up to 2 events chosen by the solver
            evs = sorted({e for t in am["transitions"] for e in t["events"]})
            for k in range(ctx.choose(3, "nsteps")):
                e = evs[ctx.choose(len(evs), f"e{k}")]
                try:
                    sm.send(e)
                except sm.TransitionNotAllowed:
                    pass
            cur = sm.current_state.id
        subject = sm
        ctx.cover("instance-graph")
        v = next(s.get("value") for s in am["states"] if s["id"] == cur)
        if v is not None and not v:
            ctx.cover("current-state-falsy-value")
    api = 0 if params["target"] == "class" else ctx.choose(3, "api")
    if api == 2:
        # one DotGraphMachine object asked before and after the instance moved
        dg = DotGraphMachine(subject)
        with ctx.notracing():
            keep = subject.current_state_value
            subject.current_state_value = next(
                (s.get("value") if s.get("value") is not None else s["id"]) for s in am["states"] if s["id"] != cur
            )
        dg.get_graph()
        with ctx.notracing():
            subject.current_state_value = keep
        graph = dg.get_graph()
        ctx.cover("generator-object-reused")
    else:
        graph = DotGraphMachine(subject).get_graph() if api == 0 else subject._graph()
    tag = f"{params['template']}:{params['target']}"
    nodes = {strip(n.get_name()): n for n in graph.get_nodes() if strip(n.get_name()) not in ("node", "edge", "graph")}
    edges = graph.get_edges()
    pseudo = [n for n in nodes if n not in ids]
    if sorted(n for n in nodes if n in ids) != sorted(ids) or len(pseudo) != 1 or len(graph.get_nodes()) != len(ids) + 1:
        raise Mismatch(f"nodes-wrong:{tag}", f"nodes {sorted(nodes)}, expected one per state {ids} plus the initial pseudo-node")
    p = pseudo[0]
    init_edges = [e for e in edges if strip(e.get_source()) == p]
    initial_id = next(s["id"] for s in am["states"] if s.get("initial"))
    if len(init_edges) != 1 or strip(init_edges[0].get_destination()) != initial_id:
        raise Mismatch(f"initial-edge-wrong:{tag}", f"{[(strip(e.get_source()), strip(e.get_destination())) for e in init_edges]}")
    # ---- edges
    got = []
    for e in edges:
        if strip(e.get_source()) == p:
            continue
        label = strip(e.get("label") or "").replace("\\n", "\n")
        lines = label.split("\n")
        evs = tuple(sorted(lines[0].split()))
        guards = ()
        if len(lines) > 1 and lines[1].startswith("["):
            guards = tuple(sorted(x.strip() for x in lines[1].strip("[]").split(",") if x.strip()))
        got.append((strip(e.get_source()), strip(e.get_destination()), evs, guards))
    exp = []
    for t in am["transitions"]:
        if t.get("internal"):
            continue
        guards = tuple(sorted(list(t.get("cond", [])) + ["!" + u for u in t.get("unless", [])]))
        exp.append((t["src"], t["tgt"], tuple(sorted(t["events"])), guards))
    if sorted(got) != sorted(exp):
        missing = [x for x in exp if x not in got]
        extra = [x for x in got if x not in exp]
        swapped = [x for x in extra if (x[1], x[0], x[2], x[3]) in missing]
        kind = "edge-direction-swapped" if swapped else "edge-missing" if missing and not extra else "edge-unexpected" if extra and not missing else "edges-differ"
        raise Mismatch(f"{kind}:{tag}", f"missing {missing}, unexpected {extra}")
    if any(exp.count(x) > 1 or sum(1 for y in exp if y[:3] == x[:3]) > 1 for x in exp):
        ctx.cover("parallel-edges-differing-in-guard")
    # ---- node decoration
    fills = {}
    for s in am["states"]:
        n = nodes[s["id"]]
        label = strip(n.get("label") or "").replace("\\n", "\n")
        per = strip(n.get("peripheries") or "1")
        if (per == "2") != bool(s.get("final")):
            raise Mismatch(f"final-border-wrong:{tag}", f"state {s['id']} final={bool(s.get('final'))} drawn with peripheries={per}")
        for t in am["transitions"]:
            if t["src"] == s["id"] and t.get("internal"):
                entries = [e for line in label.split("\n")[1:] for e in line.split(", ") if "/" in e]
                if not any(all(ev in e.split("/")[0].split() for ev in t["events"]) and all(a in e.split("/", 1)[1] for a in t.get("on", [])) for e in entries):
                    raise Mismatch(f"internal-transition-not-in-node:{tag}", f"state {s['id']}: label {label!r} does not list the internal transition on {t['events']} running {t.get('on', [])}")
                ctx.cover("internal-in-label")
        fills[s["id"]] = (strip(n.get("fillcolor") or ""), strip(n.get("penwidth") or ""))
    if any(s.get("final") for s in am["states"]):
        ctx.cover("final-double-border")
    common = max(set(fills.values()), key=list(fills.values()).count)
    highlighted = sorted(sid for sid, f in fills.items() if f != common) if len(set(fills.values())) > 1 else []
    want = [cur] if cur is not None else []
    if highlighted != want:
        raise Mismatch(f"highlight-wrong:{tag}", f"current state {cur}: highlighted {highlighted} (fill/pen per state: {fills})")
    ctx.note({"template": params["template"], "target": params["target"], "current": cur, "edges": len(got)})
