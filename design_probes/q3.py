import sys
from crosshair.tracers import NoTracing
from crosshair.core import proxy_for_type
from crosshair.statespace import context_statespace
from statemachine import StateMachine, State
import drv, sym

class M(StateMachine):
    a = State(initial=True); b = State()
    go = a.to(b); go_back = b.to(a); hop = a.to(a, event="go hop")

def check() -> bool:
    ctx = sym.Ctx()
    with NoTracing():
        space = context_statespace()
    s = proxy_for_type(str, "s" + space.uniq())
    if len(s) > int(sys.argv[1]): return True
    ok = True
    for st in M.states:
        for t in st.transitions:
            ids = [str(e) for e in t.events]
            ok = ok and (t.match(s) == (s in ids))
    return ok

if __name__ == "__main__":
    import time
    t=time.time()
    r = drv.run(check, timeout=float(sys.argv[2]))
    print({k:(v if k not in('fail','exc') else v[:3]) for k,v in r.items()}, round(time.time()-t,1))
