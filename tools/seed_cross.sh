#!/bin/bash
# Run "<seed> <check>" pairs given on stdin (one per line) and append / replace their rows in seeded/MATRIX.md.
cd "$(dirname "$0")/.."
tmp=$(mktemp)
xargs -P ${SEED_PAR:-3} -L 1 bash -c 'out=$(tools/try_mutant.sh seeded/$0/patch.diff $1 2>&1); rc=$?; echo "$0|$1|$rc|$(echo "$out" | grep -E "kind=|HARNESS" | head -1 | sed "s/|/ /g" | cut -c1-170)"' > $tmp 2>&1
while IFS='|' read -r id chk rc msg; do
  grep -v "^| $id | $chk |" seeded/MATRIX.md > $tmp.m; mv $tmp.m seeded/MATRIX.md
  echo "| $id | $chk | $rc | ${msg:-–} |" >> seeded/MATRIX.md
done < $tmp
{ head -4 seeded/MATRIX.md; tail -n +5 seeded/MATRIX.md | sort; } > $tmp.m; mv $tmp.m seeded/MATRIX.md
cat $tmp; rm -f $tmp
