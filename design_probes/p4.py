import sys, itertools
from typing import List, Tuple, Dict
from inspect import Parameter
from crosshair.tracers import NoTracing
from crosshair.core import IgnoreAttempt, realize, deep_realize
from statemachine.dispatcher import callable_method
from statemachine.signature import SignatureAdapter
import drv

NAMES = ["p", "q", "r"]
KINDS = ["po", "pk", "va", "ko", "vk"]
_cnt = [0]

def build(desc):
    """desc: list of (kind, has_default) -> function recording its bound args"""
    parts = []; seen_slash = False
    names = []
    po = [i for i,(k,d) in enumerate(desc) if k == 0]
    src = []
    for i,(k,d) in enumerate(desc):
        n = NAMES[i] if k not in (2,4) else ("args" if k==2 else "kwargs")
        names.append(n)
        if k == 0: src.append(n + ("=-1" if d else ""))
        if k == 1:
            if po and i == len(po): src.append("/")
            src.append(n + ("=-1" if d else ""))
        if k == 2:
            if po and i == len(po): src.append("/")
            src.append("*args")
        if k == 3:
            if po and i == len(po): src.append("/")
            if not any(kk == 2 for kk,_ in desc[:i]) and "*" not in src: src.append("*")
            src.append(n + ("=-1" if d else ""))
        if k == 4:
            if po and i == len(po): src.append("/")
            src.append("**kwargs")
    if po and len(po) == len(desc): src.append("/")
    _cnt[0] += 1
    fname = f"cb{_cnt[0]}"
    body = "return {" + ", ".join(f"'{n}': {n}" for n in names) + "}"
    code = f"def {fname}({', '.join(src)}):\n    {body}\n"
    ns = {}
    exec(code, ns)
    return ns[fname], code

def valid(desc):
    order = [k for k,_ in desc]
    if order != sorted(order): return False
    if order.count(2) > 1 or order.count(4) > 1: return False
    # defaults: among positional (po, pk) non-default can't follow default
    seen_def = False
    for k,d in desc:
        if k in (0,1):
            if d: seen_def = True
            elif seen_def: return False
    return True

def check(kinds: List[int], defaults: List[bool], args: List[int], kwp: List[bool], kwv: List[int]) -> bool:
    n = len(kinds)
    if not (0 <= n <= 3 and len(defaults) == 3 and len(kwp) == 4 and len(kwv) == 4 and len(args) <= 3): raise IgnoreAttempt
    for k in kinds:
        if not (0 <= k <= 4): raise IgnoreAttempt
    with NoTracing():
        kinds_c = [realize(k) for k in kinds]
        defs_c = [realize(d) for d in defaults]
    desc = [(kinds_c[i], defs_c[i] and kinds_c[i] in (0,1,3)) for i in range(n)]
    if not valid(desc): raise IgnoreAttempt
    for i in range(n, 3):
        if defs_c[i]: raise IgnoreAttempt   # canonical
    for i in range(n):
        if defs_c[i] and kinds_c[i] in (2,4): raise IgnoreAttempt
    with NoTracing():
        fn, code = build(desc)
        wrapped = callable_method(fn)
    kw = {}
    pool = NAMES + ["zz"]
    for i, nm in enumerate(pool):
        if kwp[i]: kw[nm] = kwv[i]
    try:
        got = wrapped(*args, **kw)
    except TypeError:
        got = "TypeError"
    # reference: tolerant bind
    exp = ref_bind(desc, list(args), dict(kw))
    return got == exp

def ref_bind(desc, args, kw):
    out = {}
    ai = 0
    for i,(k,d) in enumerate(desc):
        nm = NAMES[i]
        if k == 0:
            if ai < len(args): out[nm] = args[ai]; ai += 1
            elif d: out[nm] = -1
            else: return "TypeError"
        elif k == 1:
            if ai < len(args):
                out[nm] = kw.pop(nm) if nm in kw else args[ai]
                ai += 1
            elif nm in kw: out[nm] = kw.pop(nm)
            elif d: out[nm] = -1
            else: return "TypeError"
        elif k == 2:
            out["args"] = tuple(args[ai:]); ai = len(args)
        elif k == 3:
            if nm in kw: out[nm] = kw.pop(nm)
            elif d: out[nm] = -1
            else: return "TypeError"
        elif k == 4:
            out["kwargs"] = None  # fill later
    if "kwargs" in out:
        out["kwargs"] = kw
    return out

if __name__ == "__main__":
    import time
    t=time.time()
    r = drv.run(check, timeout=float(sys.argv[1]))
    print({k:(v if k not in('fail','exc') else v[:3]) for k,v in r.items()}, round(time.time()-t,1))
