"""bmc - AST -> IR -> z3 bounded model checking of the event-dispatch loop over all schedules (C06; drain-loop
obligations for C03/C04).

The encoder re-reads, on every run, the current source of
    Event.__call__, StateMachine._put_nonblocking, StateMachine._processing_loop, BaseEngine.put,
    SyncEngine.processing_loop / AsyncEngine.processing_loop
and of the second entry StateMachine.activate_initial_state -> <engine>.activate_initial_state,
inlines the calls along those chains (also other methods of the engine class the chains call on self) and lowers the statements to a small control-flow IR over the shared objects
(engine queue, processing lock).  try/finally and try/except are lowered the way a compiler does (handler and
finally blocks duplicated on every exit edge).  `_trigger` is opaque: begin, optional nested put, optional yields
(async), end-or-raise.  Anything the lowering does not understand raises Unsupported(file:line): the check then ends
with the harness-error exit code, never with a guess.
"""

from __future__ import annotations

import ast
import os
import textwrap


class Unsupported(Exception):
    pass


QUEUE_ATTR = "_external_queue"
LOCK_ATTR = "_processing"


def _src(repo, rel):
    path = os.path.join(repo, rel)
    with open(path) as f:
        return path, f.read()


def _find_func(tree, cls, name):
    for node in tree.body:
        if isinstance(node, ast.ClassDef) and node.name == cls:
            for item in node.body:
                if isinstance(item, (ast.FunctionDef, ast.AsyncFunctionDef)) and item.name == name:
                    return item
    return None


def load_functions(repo, engine):
    """engine: 'sync' | 'async'. Returns dict name -> (path, FunctionDef)."""
    files = {
        "event": "statemachine/event.py",
        "sm": "statemachine/statemachine.py",
        "base": "statemachine/engines/base.py",
        "eng": "statemachine/engines/sync.py" if engine == "sync" else "statemachine/engines/async_.py",
    }
    trees = {}
    for k, rel in files.items():
        path, text = _src(repo, rel)
        trees[k] = (path, ast.parse(text))
    want = {
        "__call__": ("event", "Event"),
        "_put_nonblocking": ("sm", "StateMachine"),
        "_processing_loop": ("sm", "StateMachine"),
        "put": ("base", "BaseEngine"),
        "processing_loop": ("eng", "SyncEngine" if engine == "sync" else "AsyncEngine"),
    }
    out = {}
    for name, (k, cls) in want.items():
        path, tree = trees[k]
        fn = _find_func(tree, cls, name)
        if fn is None and name == "put":
            fn = _find_func(trees["eng"][1], want["processing_loop"][1], name)
            path = trees["eng"][0]
        if fn is None:
            raise Unsupported(f"{path}: {cls}.{name} not found")
        out[name] = (path, fn)
    # second public entry into the drain loop: StateMachine.activate_initial_state -> engine.activate_initial_state
    eng_cls = want["processing_loop"][1]
    fn = _find_func(trees["sm"][1], "StateMachine", "activate_initial_state")
    if fn is not None:
        out["sm.activate_initial_state"] = (trees["sm"][0], fn)
    # every other method of the engine class (and of BaseEngine) may be inlined when the chain calls it (helpers
    # such as a `_drain` extracted from processing_loop); methods the chain never reaches are never looked at
    for k, cls in (("eng", eng_cls), ("base", "BaseEngine")):
        path, tree = trees[k]
        for node in tree.body:
            if isinstance(node, ast.ClassDef) and node.name == cls:
                for item in node.body:
                    if isinstance(item, (ast.FunctionDef, ast.AsyncFunctionDef)) and item.name not in out and item.name not in ("_trigger", "__init__", "__call__"):
                        out[item.name] = (path, item)
    out["__engine_tree__"] = trees["eng"]
    return out


def check_trigger_callers(funcs, inlined):
    """`_trigger` is the opaque unit of the model: every function of the engine module that calls it must have been
    lowered (reached by inlining from one of the modelled entries), otherwise some path into it is not modelled."""
    path, tree = funcs["__engine_tree__"]
    for node in ast.walk(tree):
        if isinstance(node, (ast.FunctionDef, ast.AsyncFunctionDef)) and node.name not in inlined:
            for sub in ast.walk(node):
                if isinstance(sub, ast.Call) and isinstance(sub.func, ast.Attribute) and sub.func.attr == "_trigger":
                    raise Unsupported(f"{path}:{sub.lineno}: _trigger called from {node.name}, which no modelled entry reaches")


# --------------------------------------------------------------------------------------------- IR
class Instr:
    __slots__ = ("op", "arg", "nxt", "alt", "exc", "line")

    def __init__(self, op, arg=None, nxt=None, alt=None, exc=None, line=0):
        self.op, self.arg, self.nxt, self.alt, self.exc, self.line = op, arg, nxt, alt, exc, line

    def __repr__(self):
        return f"{self.op}({self.arg}) -> {self.nxt}" + (f" / {self.alt}" if self.alt is not None else "") + (f" !{self.exc}" if self.exc is not None else "")


class Lowering:
    """Builds a list of Instr; labels are indices. Special targets: 'RET', 'RAISE' (leave the send with an exception)."""

    def __init__(self, funcs, engine, rtc=True):
        self.funcs = funcs
        self.engine = engine
        self.rtc = rtc
        self.code = []
        self.depth = 0
        self.inlined = {"processing_loop"}

    def emit(self, op, arg=None, line=0):
        self.code.append(Instr(op, arg, line=line))
        return len(self.code) - 1

    def where(self, path, node):
        return f"{path}:{getattr(node, 'lineno', '?')}"

    # -- classification helpers ---------------------------------------------------------------
    @staticmethod
    def attr_chain(node):
        parts = []
        while isinstance(node, ast.Attribute):
            parts.append(node.attr)
            node = node.value
        if isinstance(node, ast.Name):
            parts.append(node.id)
            return list(reversed(parts))
        return None

    def is_queue(self, node):
        ch = self.attr_chain(node)
        return bool(ch) and ch[-1] == QUEUE_ATTR

    def is_lock(self, node):
        ch = self.attr_chain(node)
        return bool(ch) and ch[-1] == LOCK_ATTR

    def call_kind(self, node):
        """Classify a Call (possibly wrapped in Await). Returns (kind, detail)."""
        if isinstance(node, ast.Await):
            node = node.value
        if not isinstance(node, ast.Call):
            return ("other", None)
        f = node.func
        if isinstance(f, ast.Attribute):
            if self.is_queue(f.value):
                if f.attr in ("append", "popleft", "clear"):
                    return ({"append": "PUT", "popleft": "POP", "clear": "CLEAR"}[f.attr], None)
                raise Unsupported(f"queue operation .{f.attr}() is not modelled")
            if self.is_lock(f.value):
                if f.attr == "acquire":
                    nb = any(k.arg == "blocking" and isinstance(k.value, ast.Constant) and k.value.value is False for k in node.keywords) or (
                        node.args and isinstance(node.args[0], ast.Constant) and node.args[0].value is False
                    )
                    if not nb:
                        raise Unsupported("blocking acquire is not modelled")
                    return ("ACQ", None)
                if f.attr == "release":
                    return ("REL", None)
                raise Unsupported(f"lock operation .{f.attr}() is not modelled")
            if f.attr == "_trigger":
                return ("TRIG", None)
            if f.attr in self.funcs and f.attr != "__call__" and not f.attr.startswith("__"):
                ch = self.attr_chain(f.value)
                if ch and ch[0] in ("self", "machine"):
                    return ("INLINE", f.attr)
        return ("other", None)

    # -- lowering -------------------------------------------------------------------------------
    def lower_entry(self):
        path, fn = self.funcs["__call__"]
        start = len(self.code)
        self.lower_body(path, fn.body, {"ret": "RET", "exc": "RAISE", "brk": None, "cnt": None}, None)
        return start

    def lower_activation_entry(self):
        """StateMachine.activate_initial_state(): the other public way into the drain loop (no event is put)."""
        if "sm.activate_initial_state" not in self.funcs:
            return None
        path, fn = self.funcs["sm.activate_initial_state"]
        nop = self.emit("NOP", line=fn.lineno)
        e = self.lower_body(path, fn.body, {"ret": "RET", "exc": "RAISE", "brk": None, "cnt": None}, None)
        self.code[nop].nxt = e
        return nop

    def lower_body(self, path, stmts, k, fall):
        """Lower stmts; control falls through to label `fall` (None = function end: implicit return)."""
        # we lower backwards-free: emit a placeholder JMP at the end and patch
        entry = None
        pending = []  # instrs whose nxt must be patched to the next statement's entry
        for st in stmts:
            e, outs = self.lower_stmt(path, st, k)
            if e is None:
                continue
            if entry is None:
                entry = e
            for i, field in pending:
                setattr(self.code[i], field, e)
            pending = outs
        end = fall if fall is not None else k["ret"]
        for i, field in pending:
            setattr(self.code[i], field, end)
        return entry if entry is not None else end

    def lower_stmt(self, path, st, k):
        """Returns (entry label or None, list of (instr index, field) to patch with the fall-through target)."""
        ln = getattr(st, "lineno", 0)
        if isinstance(st, ast.Pass) or (isinstance(st, ast.Expr) and isinstance(st.value, ast.Constant)):
            return None, []
        if isinstance(st, ast.Expr):
            return self.lower_call(path, st.value, k, ln)
        if isinstance(st, (ast.Assign, ast.AnnAssign)):
            value = st.value
            if value is None:
                return None, []
            targets = st.targets if isinstance(st, ast.Assign) else [st.target]
            if any(self.is_lock(t) for t in targets):
                if isinstance(value, ast.Constant) and isinstance(value.value, bool):
                    i = self.emit("LSET", arg=value.value, line=ln)
                    return i, [(i, "nxt")]
                raise Unsupported(f"{self.where(path, st)}: assignment to the processing flag is not modelled")
            if any(self.is_queue(t) for t in targets):
                raise Unsupported(f"{self.where(path, st)}: re-binding the queue is not modelled")
            kind, _ = self.call_kind(value)
            if kind == "other":
                return None, []  # local computation (TriggerData(...), sentinel bookkeeping, dict comprehension ...)
            return self.lower_call(path, value, k, ln)
        if isinstance(st, ast.Return):
            if st.value is not None:
                kind, _ = self.call_kind(st.value)
                if kind != "other":
                    e, outs = self.lower_call(path, st.value, k, ln)
                    j = self.emit("JMP", line=ln)
                    self.code[j].nxt = k["ret"]
                    for i, f in outs:
                        setattr(self.code[i], f, j)
                    return (e if e is not None else j), []
            j = self.emit("JMP", line=ln)
            self.code[j].nxt = k["ret"]
            return j, []
        if isinstance(st, ast.Raise):
            j = self.emit("JMP", line=ln)
            self.code[j].nxt = k["exc"]
            return j, []
        if isinstance(st, ast.Break):
            j = self.emit("JMP", line=ln)
            self.code[j].nxt = k["brk"]
            return j, []
        if isinstance(st, ast.Continue):
            j = self.emit("JMP", line=ln)
            self.code[j].nxt = k["cnt"]
            return j, []
        if isinstance(st, ast.If):
            return self.lower_if(path, st, k)
        if isinstance(st, ast.While):
            return self.lower_while(path, st, k)
        if isinstance(st, ast.Try):
            return self.lower_try(path, st, k)
        raise Unsupported(f"{self.where(path, st)}: statement {type(st).__name__} is not modelled")

    def lower_call(self, path, node, k, ln):
        kind, detail = self.call_kind(node)
        if kind in ("PUT", "POP", "CLEAR", "REL"):
            i = self.emit(kind, line=ln)
            return i, [(i, "nxt")]
        if kind == "ACQ":
            raise Unsupported(f"{path}:{ln}: acquire() whose result is not tested directly")
        if kind == "TRIG":
            i = self.emit("TRIG", line=ln)
            self.code[i].exc = k["exc"]
            return i, [(i, "nxt")]
        if kind == "INLINE":
            p2, fn = self.funcs[detail]
            if self.depth > 6:
                raise Unsupported(f"{path}:{ln}: inlining too deep")
            self.depth += 1
            self.inlined.add(detail)
            # the inlined function's returns continue after the call: use a landing NOP
            land = self.emit("NOP", line=ln)
            k2 = {"ret": land, "exc": k["exc"], "brk": None, "cnt": None}
            e = self.lower_body(p2, fn.body, k2, None)
            self.depth -= 1
            return e, [(land, "nxt")]
        return None, []

    def lower_test(self, path, test, ln):
        """Returns (entry, true_outs, false_outs) where *_outs are (instr, field) to patch."""
        neg = False
        t = test
        while isinstance(t, ast.UnaryOp) and isinstance(t.op, ast.Not):
            neg = not neg
            t = t.operand
        kind, _ = self.call_kind(t)
        if kind == "ACQ":
            i = self.emit("ACQ", line=ln)
            tr, fa = [(i, "nxt")], [(i, "alt")]
        elif self.is_queue(t) or (isinstance(t, ast.Call) and isinstance(t.func, ast.Name) and t.func.id == "len" and t.args and self.is_queue(t.args[0])):
            i = self.emit("QNE", line=ln)
            tr, fa = [(i, "nxt")], [(i, "alt")]
        elif self.is_lock(t):
            # the "lock" is a plain flag that is read here and written elsewhere (two separate shared operations)
            i = self.emit("LTEST", line=ln)
            tr, fa = [(i, "nxt")], [(i, "alt")]
        elif isinstance(t, ast.Attribute) and t.attr == "_rtc":
            i = self.emit("CONST", arg=bool(self.rtc), line=ln)
            tr, fa = [(i, "nxt")], [(i, "alt")]
        elif isinstance(t, ast.Compare) and len(t.ops) == 1 and isinstance(t.ops[0], (ast.Is, ast.IsNot)) and isinstance(t.comparators[0], ast.Constant) and t.comparators[0].value is None:
            # `machine is None`: the event is bound to a machine in every scenario of the property
            val = isinstance(t.ops[0], ast.IsNot)
            i = self.emit("CONST", arg=val, line=ln)
            tr, fa = [(i, "nxt")], [(i, "alt")]
        elif isinstance(t, (ast.Compare, ast.Name)) or (isinstance(t, ast.Call) and isinstance(t.func, ast.Name) and t.func.id in ("isawaitable", "isinstance")):
            # a condition over thread-local data only (first_result is sentinel, isawaitable(result)): either way
            i = self.emit("LOCAL", line=ln)
            tr, fa = [(i, "nxt")], [(i, "alt")]
        else:
            raise Unsupported(f"{path}:{ln}: condition {ast.dump(t)[:80]} is not modelled")
        if neg:
            tr, fa = fa, tr
        return i, tr, fa

    def lower_if(self, path, st, k):
        ln = st.lineno
        e, tr, fa = self.lower_test(path, st.test, ln)
        join = []
        be = self.lower_block_open(path, st.body, k, join)
        for i, f in tr:
            setattr(self.code[i], f, be)
        if st.orelse:
            oe = self.lower_block_open(path, st.orelse, k, join)
            for i, f in fa:
                setattr(self.code[i], f, oe)
        else:
            join += fa
        return e, join

    def lower_block_open(self, path, stmts, k, join):
        """Lower a block whose fall-through is left open (appended to join). Returns entry label."""
        land = self.emit("NOP")
        entry = self.lower_body(path, stmts, k, land)
        join.append((land, "nxt"))
        return entry

    def lower_while(self, path, st, k):
        ln = st.lineno
        e, tr, fa = self.lower_test(path, st.test, ln)
        if st.orelse:
            raise Unsupported(f"{path}:{ln}: while/else is not modelled")
        brk = self.emit("NOP", line=ln)
        k2 = dict(k)
        k2["brk"] = brk
        k2["cnt"] = e
        be = self.lower_body(path, st.body, k2, e)
        for i, f in tr:
            setattr(self.code[i], f, be)
        for i, f in fa:
            setattr(self.code[i], f, brk)
        return e, [(brk, "nxt")]

    def lower_try(self, path, st, k):
        ln = st.lineno
        if st.orelse:
            raise Unsupported(f"{path}:{ln}: try/else is not modelled")
        fin = st.finalbody

        def with_finally(target_kind):
            """A fresh copy of the finally block that continues to the outer continuation `target_kind`."""
            if not fin:
                return k[target_kind]
            return self.lower_body(path, fin, k, k[target_kind])

        # exception continuation inside the try body
        if st.handlers:
            if len(st.handlers) != 1:
                raise Unsupported(f"{path}:{ln}: several except clauses are not modelled")
            h = st.handlers[0]
            name = h.type.id if isinstance(h.type, ast.Name) else None
            if name not in ("Exception", "BaseException", None):
                raise Unsupported(f"{path}:{h.lineno}: except {name} is not modelled")
            # handler body: exceptions / re-raise inside it go through finally to the outer handler
            kh = dict(k)
            kh["exc"] = with_finally("exc")
            kh["ret"] = with_finally("ret")
            hland = self.emit("NOP", line=h.lineno)
            hentry = self.lower_body(path, h.body, kh, hland)
            exc_target = hentry
            handler_join = [(hland, "nxt")]
        else:
            exc_target = with_finally("exc")
            handler_join = []
        kb = dict(k)
        kb["exc"] = exc_target
        kb["ret"] = with_finally("ret")
        if k.get("brk") is not None:
            kb["brk"] = with_finally("brk")
        if k.get("cnt") is not None:
            kb["cnt"] = with_finally("cnt")
        bland = self.emit("NOP", line=ln)
        bentry = self.lower_body(path, st.body, kb, bland)
        outs = [(bland, "nxt")] + handler_join
        if fin:
            # normal completion: finally, then fall through
            fland = self.emit("NOP", line=ln)
            fentry = self.lower_body(path, fin, k, fland)
            for i, f in outs:
                setattr(self.code[i], f, fentry)
            outs = [(fland, "nxt")]
        return bentry, outs


def compile_send(repo, engine, rtc=True):
    code, entry, _act, funcs = compile_program(repo, engine, rtc)
    return code, entry, funcs


def compile_program(repo, engine, rtc=True):
    """Returns (code, entry of send, entry of activate_initial_state or None, functions lowered)."""
    funcs = load_functions(repo, engine)
    lw = Lowering(funcs, engine, rtc)
    entry = lw.lower_entry()
    act = lw.lower_activation_entry()
    check_trigger_callers(funcs, lw.inlined)
    code = lw.code
    # squeeze NOP/JMP chains
    def resolve(t):
        seen = set()
        while isinstance(t, int) and code[t].op in ("NOP", "JMP") and t not in seen:
            seen.add(t)
            t = code[t].nxt
        return t

    for ins in code:
        for f in ("nxt", "alt", "exc"):
            v = getattr(ins, f)
            if v is not None:
                setattr(ins, f, resolve(v))
    entry = resolve(entry)
    if act is not None:
        act = resolve(act)
    # keep only reachable real instructions, renumber
    reach, todo = [], [entry] + ([act] if isinstance(act, int) else [])
    while todo:
        t = todo.pop()
        if not isinstance(t, int) or t in reach:
            continue
        reach.append(t)
        for f in ("nxt", "alt", "exc"):
            v = getattr(code[t], f)
            if v is not None:
                todo.append(v)
    reach.sort()
    remap = {old: new for new, old in enumerate(reach)}
    out = []
    for old in reach:
        ins = code[old]
        n = Instr(ins.op, ins.arg, line=ins.line)
        for f in ("nxt", "alt", "exc"):
            v = getattr(ins, f)
            setattr(n, f, remap.get(v, v) if isinstance(v, int) else v)
        out.append(n)
    used = set(lw.inlined) | {"__call__", "sm.activate_initial_state"}
    listing_funcs = {name: os.path.relpath(p, repo) + ":" + fn.name for name, (p, fn) in funcs.items() if not name.startswith("__engine") and name in used}
    return out, remap[entry], (remap[act] if isinstance(act, int) else act), listing_funcs


def listing(code):
    return [f"S{i:<2} {ins.op:<6}{'' if ins.arg is None else ' ' + str(ins.arg):<6} next={ins.nxt}" + (f" else={ins.alt}" if ins.alt is not None else "") + (f" exc={ins.exc}" if ins.exc is not None else "") + f"   [line {ins.line}]" for i, ins in enumerate(code)]


# --------------------------------------------------------------------------------------------- concrete IR interpreter
def run_ir_single(code, entry, events, nested, fails):
    """Execute the IR for ONE sender sending `events` one after the other (no concurrency); returns the trace of
    shared operations. nested: event -> child event or None; fails: set of events whose trigger raises.
    A nested send re-enters the same program.  Used to validate the lowering against the real engine."""
    from collections import deque

    st = {"q": deque(), "lock": False, "steps": 0}
    trace = []

    def exec_send(ev):
        q = st["q"]
        pc = entry
        cur = None
        while True:
            st["steps"] += 1
            if st["steps"] > 20000:
                raise Unsupported("IR interpreter did not terminate")
            if pc == "RET":
                return "ret"
            if pc == "RAISE":
                return "raise"
            ins = code[pc]
            op = ins.op
            if op == "PUT":
                q.append(ev)
                trace.append(("put", ev))
                pc = ins.nxt
            elif op == "ACQ":
                if st["lock"]:
                    trace.append(("acquire", False))
                    pc = ins.alt
                else:
                    st["lock"] = True
                    trace.append(("acquire", True))
                    pc = ins.nxt
            elif op == "REL":
                st["lock"] = False
                trace.append(("release",))
                pc = ins.nxt
            elif op == "LTEST":
                trace.append(("ltest", st["lock"]))
                pc = ins.nxt if st["lock"] else ins.alt
            elif op == "LSET":
                st["lock"] = bool(ins.arg)
                trace.append(("lset", st["lock"]))
                pc = ins.nxt
            elif op == "QNE":
                ne = len(q) > 0
                trace.append(("nonempty", ne))
                pc = ins.nxt if ne else ins.alt
            elif op == "POP":
                cur = q.popleft()
                trace.append(("pop", cur))
                pc = ins.nxt
            elif op == "CLEAR":
                q.clear()
                trace.append(("clear",))
                pc = ins.nxt
            elif op == "TRIG":
                trace.append(("begin", cur))
                child = nested.get(cur)
                if child is not None:
                    exec_send(child)
                if cur in fails:
                    trace.append(("fail", cur))
                    pc = ins.exc
                else:
                    trace.append(("end", cur))
                    pc = ins.nxt
            elif op == "CONST":
                pc = ins.nxt if ins.arg else ins.alt
            elif op == "LOCAL":
                pc = ins.nxt  # both arms are equivalent for shared operations (checked separately)
            else:
                raise Unsupported(f"IR op {op}")

    results = [exec_send(ev) for ev in events]
    return trace, results, list(st["q"]), st["lock"]


def local_branches_equivalent(code):
    """A LOCAL branch (thread-local condition) must not lead to different shared operations before the send ends:
    both arms may only reach RET/RAISE or re-join without touching the queue or the lock in between."""
    shared = {"PUT", "ACQ", "REL", "QNE", "POP", "CLEAR", "TRIG", "LTEST", "LSET"}

    def first_shared(t, seen):
        while True:
            if not isinstance(t, int):
                return t
            if t in seen:
                return ("loop", t)
            seen = seen | {t}
            ins = code[t]
            if ins.op in shared:
                return t
            if ins.op in ("LOCAL", "CONST"):
                a = first_shared(ins.nxt, seen)
                b = first_shared(ins.alt, seen)
                if ins.op == "CONST":
                    return a if ins.arg else b
                if a != b:
                    raise Unsupported(f"line {ins.line}: a thread-local condition selects between different shared operations ({a} vs {b})")
                return a
            t = ins.nxt

    for i, ins in enumerate(code):
        if ins.op == "LOCAL":
            first_shared(i, frozenset())
    return True


def dedent(s):
    return textwrap.dedent(s)
