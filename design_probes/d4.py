import warnings, asyncio
warnings.simplefilter("ignore")
from statemachine import StateMachine, State
class AM(StateMachine):
    a = State(initial=True); b = State(); c = State()
    go = a.to(b) | b.to(c) | c.to(a)
    x = a.to(c) | b.to(a) | c.to(b)
    log = None
    async def on_enter_a(self, event):
        self.log.append(("enter_a", str(event)))
        if event == "__initial__":
            r = self.send("x"); 
            r = await r if asyncio.iscoroutine(r) else r
            self.log.append(("nested_x_ret", r))
    def on_enter_state(self, state, event): self.log.append(("enter", state.id, str(event)))
class Mod:
    def __init__(self): self.state=None; self.log=[]
m = Mod(); AM.log = m.log
sm = AM(m)
try: print("current_state before first event (sync ctx):", sm.current_state.id)
except Exception as e: print("before first event:", type(e).__name__)
print("send go ->", sm.send("go"), sm.current_state.id, m.log)
