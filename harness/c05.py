"""C05 - async callbacks behave exactly like their synchronous counterparts (SX, relational).

Every scenario is run twice on twins rendered from one abstract machine: an all-plain twin and a twin in which a
chosen subset of callbacks (all, or a single guard / validator / action / listener method) are coroutine functions
that yield to the event loop between their begin and end markers.  Both twins draw their script (nested sends,
raises, guard values, return values) from one memo keyed by callback identity and occurrence, so they face the
same inputs; each is judged by the trace acceptor and the two are then compared directly (outcome, result, state,
multiset of callbacks with the view of state they were given).

Real code under the tracer: AsyncEngine (processing_loop, _trigger, _activate), CallbacksExecutor.async_call /
async_all, CallbackWrapper.__call__, dispatcher.callable_method's coroutine adapter, utils.run_async_from_sync,
Event.__call__ / StateMachine.send as sync facade and inside a running loop; spec_parser combinators on coroutine
operands; plus the sync twin's path.
"""

from __future__ import annotations

import asyncio

from harness.eng_common import EVENTS, STATES, chain_am, frame_check
from vfw.ctx import Mismatch
from vfw.machines import render
from vfw.scenario import ANY, Acceptor, Script, accept_or_mismatch, brief_log, next_call, outcome_of, same_value

PROPERTY = "C05"


class MemoCtx:
    """Both twins draw from the same memo: a draw is identified by its label."""

    def __init__(self, ctx):
        self._ctx = ctx
        self._memo = {}
        self.symbolic = ctx.symbolic

    def __getattr__(self, k):
        return getattr(self._ctx, k)

    def _m(self, label, fn):
        if label not in self._memo:
            self._memo[label] = fn()
        return self._memo[label]

    def choose(self, n, label="c"):
        return self._m(("c", label, n), lambda: self._ctx.choose(n, label))

    def sym_int(self, label="i", lo=None, hi=None):
        return self._m(("i", label), lambda: self._ctx.sym_int(label, lo, hi))

    def sym_bool(self, label="b"):
        return self._m(("b", label), lambda: self._ctx.sym_bool(label))


ACTION_NAMES = ["before_transition", "on_exit_state", "on_transition", "on_enter_state", "after_transition"]
SINGLES = [("machine", "ok1"), ("machine", "v0"), ("machine", "no7"), ("machine", "on_transition"), ("machine", "on_enter_state"),
           ("listener0", "after_transition"), ("listener0", "on_enter_a")]


def tasks(tier):
    quick = tier == "quick"
    out = []

    def add(subset, driver, s0, first, kind="A", expr=False, variant=None):
        out.append({"subset": subset, "driver": driver, "s0": s0, "first": first, "kind": kind, "expr": expr, "variant": variant})

    out.append({"kind": "per-instance", "quick": quick})
    for first in range(3):
        for s0 in (range(4) if not quick else (0, 3)):
            add("all", "sync-facade", s0, first, kind="S" if s0 == 3 else "A")
            add("all", "in-loop", s0, first, kind="S" if quick or s0 == 3 else "A")
        for i in range(len(SINGLES)):
            if quick and (i + first) % 3:
                continue
            add(f"single:{i}", "sync-facade", 0 if quick else (i % 3), first, kind="S")
    for first in range(3):
        add("all", "sync-facade", 0, first, kind="S", variant="first-none")   # first event returns None, a queued one does not
        add("all", "sync-facade", 2, first, kind="S", variant="int-guards")   # truthy / falsy ints instead of bools
    add("all", "sync-facade", 1, 0, kind="S", variant="int-guards")
    add("all", "sync-facade", 0, 0, kind="S", variant="decorated")            # one coroutine action hidden behind a plain decorator
    add("all", "in-loop", 2, 0, kind="S", variant="decorated")
    add("all", "sync-facade", 0, 0, kind="S", variant="single-result")          # exactly one result, possibly falsy (0)
    add("all", "in-loop", 2, 0, kind="S", variant="single-result")
    add("all", "sync-facade", 0, 0, kind="A", variant="guarded-validator")    # validator and guard on the same candidate
    add("single:1", "sync-facade", 0, 0, kind="A", variant="guarded-validator")
    add("single:2", "sync-facade", 0, 0, kind="S", variant="with-signature")  # the only coroutine callback carries __signature__
    add("single:4", "in-loop", 1, 0, kind="S", variant="with-signature")
    for first in (0,):
        add("all", "sync-facade", 1, first, kind="G", expr=True)
        add("guards", "sync-facade", 1, first, kind="G")
    return out


BUDGET = {
    "quick": {"max_secs": 900, "task_secs": 500, "path_secs": 30},
    "thorough": {"max_secs": 7200, "task_secs": 3400, "path_secs": 60},
}
BOUNDS = {
    "quick": "T-chain template with a listener; twins {all callbacks coroutine functions, one single coroutine callback out of 7 (guards, validator, actions, listener "
    "methods)}; drivers {plain call without a loop, awaited inside a running loop}; scenario A (C04): first event with a raise, or a nested send optionally "
    "followed by a raise, at any callback invocation, then a follow-up event; scenario S: one nested send; pre-state a and the from-construction scenario "
    "(activation through the first event); coroutine callbacks yield once to the loop between begin and end; a guard written as a boolean expression over two "
    "coroutine guards; a list of two coroutine guards that yield unevenly; variants: first event returning None with a queued event returning a value, int-valued guards, a candidate carrying both a validator and a guard, callbacks carrying an explicit __signature__ attribute (the only coroutine callback among them).",
    "thorough": "all pre-states, all 7 single-coroutine twins on every first event, scenario A with the in-loop driver.",
}
OUTSIDE = "machines driven in turn from different OS threads (the symbolic engine is per-thread; C06 covers the loop-per-thread facade structurally); rtc=False (rejected by the async engine at construction, documented)"
OBLIGATIONS = ["twin-instances-of-one-class", "twins-agree", "in-loop-driver", "sync-facade-driver", "single-coroutine-callback", "async-raise", "async-nested-send", "activation-by-first-event"]
ASSUMPTIONS = [
    "the two twins carry identical class and callback qualified names (as when produced by one factory function); the signature cache is cleared at the start of every path",
    "twin equality is asserted where both twins complete initial activation before the first user event; the deferred activation of the async twin (documented) is judged by the acceptor",
    "callbacks abandoned by a failed asyncio.gather may finish later; their trailing records are ignored (tolerance 3)",
    "order inside a group is free on both twins; results are compared as before-values then on-values in observed order",
]


def twin_results_equal(a, b):
    """Results of the twins: equal up to the order inside the before / on groups (already pinned per twin by the acceptor)."""
    if isinstance(a, list) and isinstance(b, list):
        from vfw.scenario import _perm_equal

        return len(a) == len(b) and _perm_equal(a, b)
    return same_value(a, b)


def make_twin(ctx, am, params, script_kw):
    with ctx.notracing():
        box = [None]
        # both twins come out of the same "factory": same class name and the same qualified names for their callbacks
        r = render(am, box, class_name="C05M", uid="twin:0")
        script = Script(ctx, am, **script_kw)
        box[0] = script
        listeners = [c() for c in r["listener_classes"]]
    return r, script, listeners


def run(ctx, params):
    if params.get("kind") == "per-instance":
        # twins that are two INSTANCES of one class: one served by a provider with plain callbacks, the other by the same
        # provider written with coroutine functions (scenario shared with C12)
        from harness.c12 import run_providers_per_instance

        run_providers_per_instance(ctx, params)
        ctx.cover("twin-instances-of-one-class")
        return
    with ctx.notracing():
        try:
            from statemachine.signature import SignatureAdapter

            clear = getattr(SignatureAdapter.from_callable, "clear_cache", None)
            if clear is not None:
                clear()
        except Exception:  # noqa: BLE001
            pass
    mctx = MemoCtx(ctx)
    subset = params["subset"]
    expr = params["expr"]
    variant = params.get("variant")
    single = variant in ("first-none", "single-result")
    base = chain_am(asyncs_all=False, with_listener=not single, drop=("before_transition",) if single else ())
    if variant == "guarded-validator":
        base["transitions"][0]["cond"] = ["ok0"]
        base["methods"]["machine"].append("ok0")
    if expr:
        # (b, go) is guarded by a boolean expression over two guards instead of one plain name
        base["transitions"][1]["cond"] = ["ok1 and ok2"]
        base["methods"]["machine"].append("ok2")
    if params["kind"] == "G" and not expr:
        base["transitions"][1]["cond"] = ["ok1", "ok2"]
        base["methods"]["machine"].append("ok2")
    all_names = [[p, n] for p, ns in base["methods"].items() for n in ns]
    if subset == "all":
        asyncs = all_names
    elif subset == "guards":
        asyncs = [["machine", "ok1"], ["machine", "ok2"]]
    else:
        asyncs = [list(SINGLES[int(subset.split(":")[1])])]
        ctx.cover("single-coroutine-callback")
    kind = params["kind"]
    if kind == "A":
        script_kw = {"budget": 2, "actions": ("send", "raise"), "send_events": ("go", "hop"), "values": "int", "policy": "send-then-raise"}
        calls = 2
    elif kind == "S":
        script_kw = {"budget": 1, "actions": ("send",), "send_events": ("go", "hop"), "values": "first_none" if variant == "first-none" else "int",
                     "guard_kind": "int" if variant == "int-guards" else "bool"}
        calls = 1
    else:
        script_kw = {"budget": 0, "values": "int"}
        calls = 2
    first = EVENTS[params["first"]]
    results = []
    for twin in ("sync", "async"):
        am = dict(base)
        am["async"] = asyncs if twin == "async" else []
        if variant == "decorated" and twin == "async":
            # `on_transition` of the machine is a plain function that returns the coroutine of the real callback
            am["async_behind_plain_decorator"] = [["machine", "on_transition"]]
        if variant == "with-signature":
            # every callback (plain twin and coroutine twin alike) carries an explicit __signature__ attribute
            am["with_signature_attribute"] = [[p_, n_] for p_, ns_ in am["methods"].items() for n_ in ns_]
        is_async = twin == "async"
        kw = dict(script_kw)
        kw["yields"] = 1 if is_async else 0
        r, script, listeners = make_twin(mctx, am, params, kw)
        if kind == "G":
            script.yields_by_name = {"ok2": 12, "ok1": 0}  # the second guard of the list is still running when the first has answered
        res = drive(ctx, mctx, params, twin, am, r, script, listeners, first, calls, is_async)
        results.append(res)
        if script.unawaited:
            raise Mismatch(
                "plain-callback-nested-send-returns-coroutine",
                f"twin {twin}/{subset}: a plain (non-coroutine) callback of a machine that runs the async engine called sm.send(): it got an un-awaited coroutine instead of None ({script.unawaited})",
            )
    s, a = results
    tag = f"{subset}:{params['driver']}"
    if params["s0"] == 3:
        # the async twin activates through its first event (documented); judged by the acceptor only (tolerance 5)
        ctx.cover("in-loop-driver" if params["driver"] == "in-loop" else "sync-facade-driver")
        return
    if len(s) != len(a):
        raise Mismatch(f"twins-differ:history-length:{tag}", f"{len(s)} vs {len(a)} calls")
    for k, (x, y) in enumerate(zip(s, a)):
        if x["outcome"][0] != y["outcome"][0] or (x["outcome"][0] == "exc" and x["outcome"][1][0] != y["outcome"][1][0]):
            raise Mismatch(f"twins-differ:outcome:{tag}", f"call {k}: sync {x['outcome']!r}, async {y['outcome']!r}")
        if x["outcome"][0] == "ret" and not twin_results_equal(x["outcome"][1], y["outcome"][1]):
            raise Mismatch(f"twins-differ:result:{tag}", f"call {k}: sync {x['outcome'][1]!r}, async {y['outcome'][1]!r}")
        if x["state"] != y["state"]:
            raise Mismatch(f"twins-differ:state:{tag}", f"call {k}: sync in {x['state']}, async in {y['state']}")
        if sorted(x["calls"]) != sorted(y["calls"]) and x["outcome"][0] == "ret":
            raise Mismatch(f"twins-differ:callbacks:{tag}", f"call {k}: sync ran {sorted(x['calls'])}, async ran {sorted(y['calls'])}")
    ctx.cover("twins-agree")
    ctx.cover("in-loop-driver" if params["driver"] == "in-loop" else "sync-facade-driver")
    ctx.note({"subset": subset, "driver": params["driver"], "calls": [(x["event"], x["outcome"][0], x["state"]) for x in s]})


def drive(ctx, mctx, params, twin, am, r, script, listeners, first, calls, is_async):
    """Returns per call: event, outcome, state after, multiset of (provider, name, event, state view)."""
    out = []
    tag = f"{twin}:{params['subset']}:{params['driver']}"
    s0 = params["s0"]
    pending_initial = False
    with mctx.notracing():
        if s0 == 3 and is_async:
            sm = r["cls"](listeners=listeners)
            pending_initial = True
            cur = None
        else:
            script.muted = True
            sm = r["cls"](listeners=listeners)
            if is_async:
                sm.activate_initial_state()
            sm.current_state_value = "a" if s0 == 3 else STATES[s0]
            script.muted = False
            cur = "a" if s0 == 3 else STATES[s0]
        script.sm = sm
    if pending_initial:
        ctx.cover("activation-by-first-event")
    in_loop = params["driver"] == "in-loop" and is_async
    loop = asyncio.new_event_loop() if in_loop else None
    try:
        for k in range(calls):
            ev = first if k == 0 else "go"
            next_call(script, k)
            if k > 0:
                script.budget = 0
            if in_loop:

                async def one():
                    r_ = sm.send(ev)
                    if hasattr(r_, "__await__"):
                        r_ = await r_
                    return r_

                o = outcome_of(lambda: loop.run_until_complete(one()), sm)
            else:
                o = outcome_of(lambda: sm.send(ev), sm)
            acc = Acceptor(am, script.log, rtc=True, is_async=is_async)
            evs = (["__initial__"] if pending_initial else []) + [ev]
            pending_initial = False
            try:
                new = accept_or_mismatch(acc, cur, evs, o, tag, script.log)
            except Mismatch as m:
                if params["expr"] and is_async:
                    raise Mismatch("coroutine-guard-inside-boolean-expression-not-awaited", f"cond='ok1 and ok2' with coroutine guards: {m.kind}: {m.msg[:200]}")
                raise
            got = sm.current_state.id
            if got != new:
                raise Mismatch(f"wrong-state:{tag}", f"after {ev} from {cur}: expected {new}, machine in {got}")
            frame_check(ctx, sm, tag)
            calls_seen = [(rec[2], rec[3], rec[4]["event"], rec[4]["state"]) for rec in script.log if rec[0] == "cb"]
            if is_async:
                for rec in script.log:
                    if rec[0] == "raise":
                        ctx.cover("async-raise")
                    if rec[0] == "send":
                        ctx.cover("async-nested-send")
            out.append({"event": ev, "outcome": o, "state": got, "calls": calls_seen})
            cur = new
    finally:
        if loop is not None:
            loop.close()
    return out
