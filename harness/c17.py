"""C17 - deepcopy / pickle clones are equivalent and independent (SX).

Real code under the tracer: copy.deepcopy / pickle.dumps+loads of a machine -> StateMachine.__getstate__ /
__setstate__ (registry, listeners and engine rebuilt on the clone), then send() on original and clone.

Solver-enumerated structure: history prefix, copy mechanism, option combination, whether the (async) machine was
activated before the copy, the two diverging suffixes and their interleaving.  Solver variables: guard values of every
event of prefix and suffixes (held outside the copied objects: nothing symbolic is pickled).
"""

from __future__ import annotations

import copy
import pickle

from statemachine import State, StateMachine
from vfw.ctx import Mismatch

PROPERTY = "C17"

ENV = {"ok": True}  # guard value of the event being sent (set by the harness right before every send)


class CopyModel:
    """A pk-style model: equality and hash by value, so an original and its copy compare equal."""

    _next_pk = [0]

    def __init__(self):
        CopyModel._next_pk[0] += 1
        self.pk = CopyModel._next_pk[0]  # unique per constructed model; a copy keeps its original's pk
        self.state = None
        self.status = None
        self.seen = []
        self.blocked = False  # a guard given as a plain data attribute

    def __len__(self):
        return 0  # an "empty" model: falsy, yet it is the user's model and must survive a copy

    def __eq__(self, other):
        return isinstance(other, CopyModel) and other.pk == self.pk

    def __hash__(self):
        return hash(self.pk)

    def after_transition(self, event, state):
        self.seen.append((str(event), state.id))


class CopyListener:
    def __init__(self, name):
        self.name = name
        self.log = []

    def on_enter_state(self, event, state):
        self.log.append((str(event), state.id))

    def veto(self):
        return False


class CopyMachine(StateMachine):
    a = State(initial=True)
    b = State(value=0)   # falsy values: a clone taken in b or c must not take them for "no state yet"
    c = State(value="")

    go = a.to(b, cond="ok", unless=["veto", "blocked"]) | a.to(c) | b.to(c) | c.to(a)
    back = b.to(a) | c.to(b)

    def __init__(self, *args, tag=None, **kwargs):
        self.tag = tag
        self.notes = {"made": tag}
        self.log = []
        self._secret = ["private", tag]      # user attributes whose names start with an underscore are state too
        self.__mangled = {"n": 1}
        super().__init__(*args, **kwargs)

    def ok(self):
        return ENV["ok"]

    def on_go(self, source, target):
        self.log.append((source.id, target.id))
        return (self.tag, target.id)

    def private_view(self):
        return (self._secret, self.__mangled)


class AsyncCopyMachine(StateMachine):
    a = State(initial=True)
    b = State()
    c = State()

    go = a.to(b, cond="ok") | a.to(c) | b.to(c) | c.to(a)
    back = b.to(a) | c.to(b)

    def __init__(self, *args, tag=None, **kwargs):
        self.tag = tag
        self.log = []
        super().__init__(*args, **kwargs)

    async def ok(self):
        return ENV["ok"]

    async def on_go(self, source, target):
        self.log.append((source.id, target.id))
        return (self.tag, target.id)


class RootedFlow(StateMachine):
    a = State(initial=True)
    b = State()
    c = State()

    go = a.to(b, cond="ok") | a.to(c) | b.to(c) | c.to(a)

    def ok(self):
        return ENV["ok"]

    def on_enter_a(self):
        self.model.entered.append("a")  # uses an attribute of the model: the model must be complete when this runs

    def on_enter_state(self, state):
        self.model.visits.append(state.id)


class RootedDoc:
    """The usual arrangement: the domain object owns its machine and is the machine's model."""

    def __init__(self):
        self.state = None
        self.entered = []
        self.visits = []
        self.sm = RootedFlow(self)


VALUE_OF = {"a": "a", "b": 0, "c": ""}


def step(cur, ev, ok):
    if ev == "go":
        return {"a": "b" if ok else "c", "b": "c", "c": "a"}[cur]
    if ev == "back":
        return {"b": "a", "c": "b"}.get(cur)
    return None


def tasks(tier):
    quick = tier == "quick"
    out = []
    for mech in ("deepcopy", "pickle"):
        for opts in range(4):
            for prefix in range(3):
                out.append({"kind": "sync", "mech": mech, "opts": opts, "prefix": prefix, "suffix": 2 if quick else 3})
        for activated in (False, True):
            out.append({"kind": "async", "mech": mech, "activated": activated, "suffix": 1 if quick else 2, "start": None})
        out.append({"kind": "async", "mech": mech, "activated": False, "suffix": 1, "start": "b"})
        for prefix in range(3):
            out.append({"kind": "model-rooted", "mech": mech, "prefix": prefix, "suffix": 1 if quick else 2})
    return out


BUDGET = {
    "quick": {"max_secs": 600, "task_secs": 400, "path_secs": 30},
    "thorough": {"max_secs": 3600, "task_secs": 3000, "path_secs": 60},
}
BOUNDS = {
    "quick": "3-state machine with guarded/fallback candidates, a custom constructor argument and attributes, a falsy (`__len__` == 0) model with callbacks, a custom state field, underscore-prefixed and name-mangled user attributes, events bound onto the model with bind_events_to (and driven through the model on either machine), value-based equality and a plain attribute used as a guard (set differently on original and clone after the copy), "
    "one constructor listener and one listener attached later with add_listener or the deprecated add_observer (providing a guard and an enter callback); allow_event_without_transition assigned after construction in two of the option sets; options {rtc, allow_event_without_transition, "
    "state_field, start_value} in 4 combinations; copy by copy.deepcopy and by pickle after a history of 0..2 events; then 2 further events distributed over "
    "original and clone in any interleaving, with symbolic guard values; a model that owns its machine (doc.sm = Flow(doc)) copied as the root of the graph after 0..2 events; an async-callback machine copied before and after its initial activation (also with a start_value), then driven.",
    "thorough": "3 further events after the copy; 2 on the async machine.",
}
OUTSIDE = "machines whose model, listeners or attributes cannot be pickled; copy.copy (shallow); copies taken from inside a callback"
OBLIGATIONS = ["model-rooted-copy", "model-attribute-diverged", "clone-diverged", "original-diverged", "listener-copy-independent", "options-preserved", "copied-before-activation", "pickle", "deepcopy"]
ASSUMPTIONS = [
    "guard values live outside the copied object graph (module-level ENV), so nothing symbolic is serialised; the copy itself runs under the tracer",
    "equivalence is judged against the transition table of the machine from the copy point, separately for original and clone",
]


def do_copy(mech, sm):
    if mech == "deepcopy":
        return copy.deepcopy(sm)
    return pickle.loads(pickle.dumps(sm))


def run_model_rooted(ctx, params):
    """The object that is copied is the MODEL, which owns its machine (doc.sm = Flow(doc)): the machine is copied as
    part of that graph and must come out in the same state, bound to the copied model, without running callbacks."""
    mech = params["mech"]
    with ctx.notracing():
        doc = RootedDoc()
    cur = "a"
    for k in range(params["prefix"]):
        ENV["ok"] = ctx.sym_bool(f"ok.p{k}")
        doc.sm.send("go")
        cur = step(cur, "go", True if ENV["ok"] else False)
    ENV["ok"] = True
    entered, visits = list(doc.entered), list(doc.visits)
    tag = f"model-rooted:{mech}"
    try:
        clone = do_copy(mech, doc)
    except Exception as e:  # noqa: BLE001
        if type(e).__name__ == "NotDeterministic":
            raise
        raise Mismatch(f"copy-of-model-owning-its-machine-failed:{mech}", f"after {params['prefix']} event(s), state {cur}: {type(e).__name__}: {e}")
    ctx.cover(mech)
    if clone is doc or clone.sm is doc.sm or clone.sm.model is not clone:
        raise Mismatch(f"clone-shares-model:{tag}", "the copied machine is not bound to the copied model")
    if clone.sm.current_state.id != cur or clone.state != doc.state or doc.sm.current_state.id != cur:
        raise Mismatch(f"clone-in-wrong-state:{tag}", f"expected {cur}: original {doc.sm.current_state.id}, clone {clone.sm.current_state.id} (stored {clone.state!r})")
    if clone.entered != entered or clone.visits != visits or doc.entered != entered or doc.visits != visits:
        raise Mismatch(f"callbacks-ran-during-copy:{tag}", f"enter log before the copy {visits}; original now {doc.visits}, clone {clone.visits}")
    # both go on independently
    for k in range(params["suffix"]):
        who = ctx.choose(2, f"who{k}")
        d = clone if who else doc
        ENV["ok"] = ctx.sym_bool(f"ok.s{k}")
        before_other = (doc if who else clone).sm.current_state.id
        here = d.sm.current_state.id
        d.sm.send("go")
        want = step(here, "go", True if ENV["ok"] else False)
        if d.sm.current_state.id != want or (doc if who else clone).sm.current_state.id != before_other:
            raise Mismatch(f"clone-diverged-wrongly:{tag}", f"{'clone' if who else 'original'} from {here} on go: expected {want}, got {d.sm.current_state.id}; the other one moved from {before_other} to {(doc if who else clone).sm.current_state.id}")
    ctx.cover("model-rooted-copy")


def run(ctx, params):
    if params["kind"] == "model-rooted":
        return run_model_rooted(ctx, params)
    if params["kind"] == "async":
        return run_async(ctx, params)
    mech = params["mech"]
    o = params["opts"]
    rtc = o in (0, 1, 3)
    allow = o in (1, 2)
    field = "status" if o in (2, 3) else "state"
    start_value = "b" if o == 3 else None
    with ctx.notracing():
        model = CopyModel()
        l0 = CopyListener("ctor")
        l1 = CopyListener("late")
        # opts 0/1: the option is given the other way round to the constructor and assigned afterwards (public attribute)
        kw = {"rtc": rtc, "allow_event_without_transition": (not allow) if o in (0, 1) else allow, "state_field": field, "listeners": [l0], "tag": f"T{o}"}
        if start_value:
            kw["start_value"] = VALUE_OF[start_value]
        sm = CopyMachine(model, **kw)
        if o in (0, 1):
            sm.allow_event_without_transition = allow
        if o in (1, 3):
            import warnings

            with warnings.catch_warnings():
                warnings.simplefilter("ignore", DeprecationWarning)
                sm.add_observer(l1)  # the deprecated spelling of add_listener
        else:
            sm.add_listener(l1)
        if o in (0, 3):
            sm.bind_events_to(model)  # model.go() / model.back() now drive the machine
    cur = "b" if start_value else "a"
    tag = f"{mech}:opts{o}"
    for k in range(params["prefix"]):
        ENV["ok"] = ctx.sym_bool(f"ok.p{k}")
        sm.send("go")
        cur = step(cur, "go", True if ENV["ok"] else False)
    ENV["ok"] = True
    clone = do_copy(mech, sm)
    ctx.cover(mech)
    # ---- equivalence at the copy point
    if clone is sm or clone.model is model or not isinstance(clone.model, CopyModel):
        raise Mismatch(f"clone-shares-model:{tag}", "clone.model is the original's model object (or of another type)")
    if clone.current_state.id != cur or sm.current_state.id != cur:
        raise Mismatch(f"clone-in-wrong-state:{tag}", f"expected {cur}: original {sm.current_state.id}, clone {clone.current_state.id}")
    if getattr(clone.model, field) != VALUE_OF[cur]:
        raise Mismatch(f"clone-model-field:{tag}", f"clone.model.{field} = {getattr(clone.model, field)!r}")
    if clone.tag != sm.tag or clone.notes != sm.notes or clone.notes is sm.notes or clone.log != sm.log or clone.log is sm.log:
        raise Mismatch(f"clone-attributes:{tag}", "custom attributes are not equal-but-separate copies")
    try:
        pv_c, pv_o = clone.private_view(), sm.private_view()
    except AttributeError as e:
        raise Mismatch(f"clone-attributes:{tag}", f"an underscore-prefixed user attribute did not survive the copy: {e}")
    if pv_c != pv_o or pv_c[0] is pv_o[0] or pv_c[1] is pv_o[1]:
        raise Mismatch(f"clone-attributes:{tag}", f"underscore-prefixed user attributes: original {pv_o!r}, clone {pv_c!r}")
    if clone.allow_event_without_transition != allow or clone.state_field != field or clone.start_value != (VALUE_OF[start_value] if start_value else None):
        raise Mismatch(f"clone-options-lost:{tag}", f"allow={clone.allow_event_without_transition} field={clone.state_field} start_value={clone.start_value}")
    eng = getattr(clone, "_engine", None)
    if eng is not None and hasattr(eng, "_rtc") and eng._rtc != rtc:
        raise Mismatch(f"clone-options-lost:{tag}", f"rtc={eng._rtc}, expected {rtc}")
    # the tolerated / refused unknown event behaves the same on both
    for m in (sm, clone):
        try:
            r = m.send("no_such_event")
            refused = False
        except m.TransitionNotAllowed:
            refused = True
        if refused == allow or (not refused and r is not None):
            raise Mismatch(f"clone-options-lost:{tag}", f"allow_event_without_transition={allow} but unknown event {'refused' if refused else 'tolerated'} on {'clone' if m is clone else 'original'}")
    ctx.cover("options-preserved")
    cl = list(getattr(clone, "_listeners", {}))
    if len(cl) != 2 or any(x is l0 or x is l1 for x in cl):
        raise Mismatch(f"clone-listeners:{tag}", f"clone has {len(cl)} listener(s), shared with the original: {[x is l0 or x is l1 for x in cl]}")
    c0 = next((x for x in cl if x.name == "ctor"), None)
    c1 = next((x for x in cl if x.name == "late"), None)
    if c0 is None or c1 is None or c0.log != l0.log or c1.log != l1.log:
        raise Mismatch(f"clone-listeners:{tag}", "listener copies are missing or their contents differ from the originals")
    # ---- diverging suffixes
    use_model_triggers = bool(o == 3 or (o == 0 and params["prefix"] == 1))  # drive through model.go() / model.back()
    curs = {"orig": cur, "clone": cur}
    machines = {"orig": sm, "clone": clone}
    # the two models diverge in a plain attribute that serves as a guard
    blocked = {"orig": False, "clone": False}
    bsel = ctx.choose(3, "blocked") if o == 0 else 0
    if bsel:
        who_b = ["orig", "clone"][bsel - 1]
        blocked[who_b] = True
        machines[who_b].model.blocked = True
        ctx.cover("model-attribute-diverged")
    lst = {"orig": (l0, l1, model), "clone": (c0, c1, clone.model)}
    for k in range(params["suffix"]):
        who = ["orig", "clone"][ctx.choose(2, f"who{k}")]
        ev = ["go", "back"][ctx.choose(2, f"ev{k}")]
        okv = ctx.sym_bool(f"ok.s{k}")
        ENV["ok"] = okv
        m = machines[who]
        other = "clone" if who == "orig" else "orig"
        before_other = (len(lst[other][0].log), len(lst[other][1].log), len(lst[other][2].seen), len(machines[other].log), machines[other].current_state.id)
        before_own = (len(lst[who][0].log), len(lst[who][1].log), len(lst[who][2].seen))
        nxt = step(curs[who], ev, (True if okv else False) and not blocked[who])
        via_model = use_model_triggers
        try:
            res = getattr(m.model, ev)() if via_model else m.send(ev)
            fired = True
        except m.TransitionNotAllowed:
            fired = False
        exp_fire = nxt is not None
        if fired != exp_fire and not (allow and not exp_fire and fired and res is None):
            raise Mismatch(f"{who}-behaves-differently-after-copy:{tag}", f"from {curs[who]} on {ev}: expected {'transition to ' + str(nxt) if exp_fire else 'refusal'}")
        if exp_fire:
            curs[who] = nxt
            if ev == "go" and not (isinstance(res, tuple) and res == (f"T{o}", nxt)):
                raise Mismatch(f"{who}-result-after-copy:{tag}", f"send returned {res!r}")
            own = (len(lst[who][0].log), len(lst[who][1].log), len(lst[who][2].seen))
            if own != tuple(x + 1 for x in before_own):
                raise Mismatch(f"{who}-listeners-not-notified-after-copy:{tag}", f"ctor listener / late listener / model callbacks went from {before_own} to {own} on one transition")
            if lst[who][0].log[-1] != (ev, nxt) or lst[who][1].log[-1] != (ev, nxt):
                raise Mismatch(f"{who}-listeners-not-notified-after-copy:{tag}", "wrong payload")
        if m.current_state.id != curs[who]:
            raise Mismatch(f"{who}-state-after-copy:{tag}", f"expected {curs[who]}, in {m.current_state.id}")
        after_other = (len(lst[other][0].log), len(lst[other][1].log), len(lst[other][2].seen), len(machines[other].log), machines[other].current_state.id)
        if after_other != before_other:
            raise Mismatch(f"driving-{who}-affected-{other}:{tag}", f"{before_other} -> {after_other}")
        ctx.cover("listener-copy-independent")
        ctx.cover("clone-diverged" if who == "clone" else "original-diverged")
    ctx.note({"mech": mech, "opts": o, "prefix": params["prefix"], "final": curs})


def run_async(ctx, params):
    mech = params["mech"]
    with ctx.notracing():
        sm = AsyncCopyMachine(tag="AS", start_value=params.get("start")) if params.get("start") else AsyncCopyMachine(tag="AS")
        if params["activated"]:
            sm.activate_initial_state()
    tag = f"{mech}:async:activated={params['activated']}"
    ENV["ok"] = True
    clone = do_copy(mech, sm)
    ctx.cover(mech)
    if not params["activated"]:
        ctx.cover("copied-before-activation")
    first = params.get("start") or "a"
    curs = {"orig": first, "clone": first}
    machines = {"orig": sm, "clone": clone}
    for k in range(params["suffix"] + 1):
        who = ["clone", "orig"][ctx.choose(2, f"who{k}")] if k else "clone"
        okv = ctx.sym_bool(f"ok.s{k}")
        ENV["ok"] = okv
        m = machines[who]
        nxt = step(curs[who], "go", True if okv else False)
        try:
            res = m.send("go")
        except Exception as e:
            if type(e).__name__ == "NotDeterministic":
                raise
            raise Mismatch(f"{who}-unusable-after-copy:{tag}", f"send('go') raised {type(e).__name__}: {str(e)[:160]}")
        curs[who] = nxt
        if m.current_state.id != nxt or res != ("AS", nxt):
            raise Mismatch(f"{who}-behaves-differently-after-copy:{tag}", f"expected {nxt}, in {m.current_state.id}, result {res!r}")
        ctx.cover("clone-diverged" if who == "clone" else "original-diverged")
    ctx.cover("listener-copy-independent")
    ctx.cover("options-preserved")
