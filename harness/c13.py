"""C13 - send(), event methods and bound events are one and the same entry point (SX).

Real code under the tracer: StateMachine.send (name resolution), Event.__get__/BoundEvent.__call__,
StateMachine.events / allowed_events, TransitionList.unique_events, bind_events_to, MachineMixin.__init__, and the
engine below them; Events.match / Transition.match on a symbolic string.

Solver-enumerated structure: pre-state, event, calling style of each twin, the name passed to send() out of the
finite set dir(machine) + declared events + non-attributes.  Solver variables: guard values and the event argument;
for the leaf obligation the event *name* itself is a symbolic string (z3 string theory: every string).
"""

from __future__ import annotations

from vfw.ctx import Mismatch

PROPERTY = "C13"

STYLES = ["send", "method", "events-item", "allowed-item", "bound-to-object", "mixin-method", "send-boundevent", "send-foreign-boundevent"]
STATES = ["a", "b", "c", "d"]
EVENTS = ["go", "go_back", "hop", "finish", "skip", "leap"]


def build_class(name="C13M"):
    from statemachine import State, StateMachine

    log = []

    class M(StateMachine):
        a = State(initial=True)
        b = State()
        c = State()
        d = State(final=True)

        go = a.to(b, cond="g1") | a.to(c) | b.to(c, unless="g2")
        go_back = b.to(a) | c.to(a, cond="g1")
        hop = a.to.itself(internal=True) | c.to(b)
        finish = c.to(d) | b.to(d, cond="g2")
        c.to(c, event=["hop", "hop leap"], internal=True)  # an id repeated inside one event list, followed by a new id

        def __len__(self):
            return 0  # a machine class that is a (currently empty) container: falsy, and still a machine
        a.to(c, event="go skip")  # a multi-event transition whose first id is already used by earlier transitions of a

        def g1(self):
            return self.vals["g1"]

        def g2(self):
            return self.vals["g2"]

        def on_transition(self, event, source, target, x=None):
            log.append((str(event), source.id, target.id))
            return ("r", x)

        def helper_method(self, *a, **k):
            log.append(("helper_method-called",))
            return "helper"

        @property
        def helper_property(self):
            log.append(("helper_property-read",))
            return lambda *a, **k: "prop"

    M.__name__ = name
    M.__qualname__ = name
    return M, log


_C = {}


def prepare(params):
    import statemachine.registry as registry
    from statemachine.mixins import MachineMixin

    M, log = build_class()
    registry._initialized = True  # environment stub: skip django autodiscovery, the class is registered by its metaclass
    registry.register(M)

    class Row:
        """What an ORM base class does: its initialiser assigns the column defaults."""

        def __init__(self):
            self.state = None

    class Holder(MachineMixin, Row):  # the mixin listed first, no initialiser of its own
        state_machine_name = f"{M.__module__}.{M.__name__}"
        bind_events_as_methods = True

    _C["M"], _C["log"], _C["Holder"] = M, log, Holder
    ref = M()
    ref.vals = {"g1": True, "g2": False}
    names = sorted(set(dir(ref)) | {"nope", "go_", "g", "go_backx", "", "Go", "__initial__", "helper", "vals"})
    _C["names"] = names
    _C["trans"] = [(s.id, [(t.target.id, [str(e) for e in t.events], t.internal) for t in s.transitions]) for s in M.states]


def tasks(tier):
    quick = tier == "quick"
    out = []
    for s0 in range(4):
        for allow in (False, True):
            out.append({"kind": "styles", "s0": s0, "allow": allow, "engine": "sync"})
    for allow in (False, True):
        for part in range(8):
            out.append({"kind": "names", "allow": allow, "part": part, "parts": 8, "s0": None})
    out.append({"kind": "match"})
    out.append({"kind": "listing"})
    return out


BUDGET = {
    "quick": {"max_secs": 600, "task_secs": 400, "path_secs": 30},
    "thorough": {"max_secs": 3600, "task_secs": 3000, "path_secs": 60},
}
BOUNDS = {
    "quick": "one template (4 states incl. a final one, 4 events, several candidates per (state,event), guards, internal transition); every pre-state x "
    "every declared event x 8 calling styles (send(name), sm.<e>(), item of sm.events, item of sm.allowed_events, trigger bound with bind_events_to, "
    "MachineMixin method, send(<BoundEvent>), send(<BoundEvent of another instance>)) compared pairwise through a reference style, with symbolic guard values and event argument; "
    "send(<name>) for every name in dir(machine) (~150: methods, properties, dunders, state ids, private attributes) plus 9 non-attributes, from "
    "every state, with and without allow_event_without_transition; events / allowed_events listing in every state; Transition.match(s) for a "
    "symbolic string s against every transition of the template.",
    "thorough": "same (exhausted at quick).",
}
OUTSIDE = "send(s) end-to-end for a free symbolic string (getattr realises the name; the finite pool stands in); other machine templates"
OBLIGATIONS = ["styles-agree", "tna", "fired", "non-event-name-refused", "non-event-name-tolerated", "match-any-string", "allowed-events-listed"]
ASSUMPTIONS = [
    "environment stub: statemachine.registry._initialized is set so that MachineMixin does not run django's autodiscovery",
    "allowed_events order: first appearance along the state's transitions or class declaration order are both accepted",
    "a name that is not a declared event must behave as an unknown event: TransitionNotAllowed (or None when tolerated), no callback, no attribute called or read as a trigger, machine state and listeners unchanged",
]


def call_style(ctx, style, sm, holder, other, ev, x):
    if style == "send":
        return sm.send(ev, x=x)
    if style == "method":
        return getattr(sm, ev)(x=x)
    if style == "events-item":
        item = [e for e in sm.events if e == ev]
        if len(item) != 1:
            raise Mismatch("events-listing", f"sm.events has {len(item)} entries for {ev}")
        return item[0](x=x)
    if style == "allowed-item":
        item = [e for e in sm.allowed_events if e == ev]
        if not item:
            return "<not-listed>"
        return item[0](x=x)
    if style == "bound-to-object":
        return getattr(other, ev)(x=x)
    if style == "mixin-method":
        return getattr(holder, ev)(x=x)
    if style == "send-boundevent":
        return sm.send(getattr(sm, ev), x=x)
    if style == "send-foreign-boundevent":
        # an event object obtained from another instance of the class names the event; it must drive *this* machine
        foreign = type(sm)()
        foreign.vals = sm.vals
        r = sm.send(getattr(foreign, ev), x=x)
        if foreign.current_state.id != "a":
            raise Mismatch("send-drove-another-instance", f"sm.send(<event of another instance>) moved that other instance to {foreign.current_state.id}")
        return r
    raise AssertionError(style)


def expected_allowed(cur):
    first_appearance = []
    for tgt, evs, _i in dict(_C["trans"])[cur]:
        for e in evs:
            if e not in first_appearance:
                first_appearance.append(e)
    decl = [e for e in EVENTS if e in first_appearance]
    return first_appearance, decl


def run(ctx, params):
    kind = params["kind"]
    if kind == "styles":
        return run_styles(ctx, params)
    if kind == "names":
        return run_names(ctx, params)
    if kind == "match":
        return run_match(ctx, params)
    return run_listing(ctx, params)


def run_styles(ctx, params):
    M, log, Holder = _C["M"], _C["log"], _C["Holder"]
    cur = STATES[params["s0"]]
    ev = EVENTS[ctx.choose(len(EVENTS), "ev")]
    style = STYLES[1 + ctx.choose(len(STYLES) - 1, "style")]
    vals = {"g1": ctx.sym_bool("g1"), "g2": ctx.sym_bool("g2")}
    x = ctx.sym_int("x")
    results = []
    for st in ("send", style):
        with ctx.notracing():
            del log[:]

            class Other:
                pass

            other = Other()
            if st == "mixin-method":
                holder = Holder()
                sm = holder.statemachine
                if holder.state != "a" or sm.current_state.id != "a":
                    raise Mismatch("mixin-object-not-in-initial-state", f"a fresh MachineMixin object: stored state {holder.state!r}, machine in {getattr(sm.current_state, 'id', None)!r}")
                sm.allow_event_without_transition = params["allow"]
            else:
                holder = None
                sm = M(allow_event_without_transition=params["allow"])
            sm.vals = vals

            class Taken:
                go = "already here"  # a second target on which one event name is already taken

            import warnings as _w

            with _w.catch_warnings():
                _w.simplefilter("ignore")
                sm.bind_events_to(other, Taken())
            sm.current_state_value = cur
        try:
            r = ("ret", call_style(ctx, st, sm, holder, other, ev, x))
        except sm.TransitionNotAllowed as e:
            r = ("tna", str(e.event), getattr(e.state, "id", None))
        results.append((r, sm.current_state.id, list(log)))
    (r0, s0, l0), (r1, s1, l1) = results
    if r1 == ("ret", "<not-listed>"):
        # allowed_events does not list the event: then it must have no transition from here
        fa, _decl = expected_allowed(cur)
        if ev in fa:
            raise Mismatch("allowed-events-missing-event", f"state {cur}: {ev} has a transition but is not in allowed_events")
        return
    same = r0[0] == r1[0] and s0 == s1 and l0 == l1
    if same and r0[0] == "ret":
        a, b = r0[1], r1[1]
        same = (a is None and b is None) or (isinstance(a, tuple) and isinstance(b, tuple) and a[0] == b[0] and (a[1] is b[1] or a[1] == b[1]))
    if same and r0[0] == "tna":
        same = r0[1:] == r1[1:]
    if not same:
        raise Mismatch(
            f"calling-styles-differ:{style}",
            f"from {cur}, event {ev}: send() gave {r0[0]}/{s0}, {style} gave {r1[0]}/{s1}",
            {"send": repr(r0)[:200], "other": repr(r1)[:200], "log_send": l0, "log_other": l1},
        )
    ctx.cover("styles-agree")
    ctx.cover("tna" if r0[0] == "tna" else "fired" if l0 else "styles-agree")
    ctx.note({"pre": cur, "event": ev, "style": style, "outcome": r0[0], "post": s0})


def run_names(ctx, params):
    M, log = _C["M"], _C["log"]
    names = _C["names"]
    mine = [n for i, n in enumerate(names) if i % params["parts"] == params["part"]]
    name = mine[ctx.choose(len(mine), "name")]
    s0 = params["s0"] if params["s0"] is not None else ctx.choose(4, "s0")
    cur = STATES[s0]
    vals = {"g1": ctx.sym_bool("g1"), "g2": ctx.sym_bool("g2")}
    with ctx.notracing():
        del log[:]
        probe = object()
        sm = M(allow_event_without_transition=params["allow"], listeners=[probe])
        sm.vals = vals
        sm.current_state_value = cur
        before_dict = dict(sm.__dict__)
        before_listeners = list(getattr(sm, "_listeners", {}))
        before_model = dict(sm.model.__dict__)
    if name in EVENTS:
        return  # declared events are the styles scenario
    try:
        out = ("ret", sm.send(name))
    except sm.TransitionNotAllowed as e:
        out = ("tna", str(e.event))
    except Exception as e:
        if type(e).__name__ == "NotDeterministic":
            raise
        out = ("exc", type(e).__name__)
    cls_of = "dunder" if name.startswith("__") else "private" if name.startswith("_") else "state-id" if name in STATES else "public"
    problems = []
    if params["allow"]:
        if out != ("ret", None):
            problems.append(f"send({name!r}) gave {out!r}, expected None (tolerated unknown event)")
    else:
        if out[0] != "tna":
            problems.append(f"send({name!r}) gave {out!r}, expected TransitionNotAllowed")
        elif out[1] != name:
            problems.append(f"TransitionNotAllowed carries event {out[1]!r}, expected {name!r}")
    if log:
        problems.append(f"user code ran: {log}")
    if sm.current_state.id != cur:
        problems.append(f"state moved to {sm.current_state.id}")
    with ctx.notracing():
        after_dict = dict(sm.__dict__)
        changed = sorted(k for k in set(before_dict) | set(after_dict) if before_dict.get(k, probe) is not after_dict.get(k, probe))
        if changed:
            problems.append(f"machine attributes changed: {changed}")
        if list(getattr(sm, "_listeners", {})) != before_listeners:
            problems.append("listeners changed")
        if dict(sm.model.__dict__) != before_model:
            problems.append("model changed")
    if problems:
        raise Mismatch(f"send-of-non-event-name:{cls_of}:{name}", f"{name!r} is not a declared event (attribute class: {cls_of}) of the machine, not a declared event; " + "; ".join(problems), {"name": name})
    ctx.cover("non-event-name-tolerated" if params["allow"] else "non-event-name-refused")
    ctx.note({"name": name, "outcome": out[0]})


def run_match(ctx, params):
    M = _C["M"]
    s = ctx.sym_str("name")
    ctx.assume(len(s) <= 9)
    for st in M.states:
        for t in st.transitions:
            ids = [str(e) for e in t.events]
            got = t.match(s)
            exp = False
            for e in ids:
                if s == e:
                    exp = True
            if bool(got) != exp:
                raise Mismatch("event-match-not-exact", f"transition {st.id}->{t.target.id} on {ids}: match(s) is {bool(got)} for a string that {'equals' if exp else 'differs from'} its event ids", {"s": s})
    ctx.cover("match-any-string")


def run_listing(ctx, params):
    M = _C["M"]
    cur = STATES[ctx.choose(4, "s0")]
    with ctx.notracing():
        sm = M()
        sm.vals = {"g1": ctx.sym_bool("g1"), "g2": ctx.sym_bool("g2")}
        sm.current_state_value = cur
    listed = [str(e) for e in sm.allowed_events]
    fa, decl = expected_allowed(cur)
    if listed != fa and listed != decl:
        raise Mismatch("allowed-events-wrong", f"state {cur}: allowed_events = {listed}, expected {fa} (or {decl})")
    # the model is the source of truth: after the stored state changed behind the machine the listing follows it
    nxt = STATES[ctx.choose(4, "s1")]
    sm.model.state = nxt
    listed2 = [str(e) for e in sm.allowed_events]
    fa2, decl2 = expected_allowed(nxt)
    if listed2 != fa2 and listed2 != decl2:
        raise Mismatch("allowed-events-stale", f"state written to {nxt} (was {cur}): allowed_events = {listed2}, expected {fa2}")
    evs = [str(e) for e in sm.events]
    if sorted(evs) != sorted(EVENTS):
        raise Mismatch("events-wrong", f"events = {evs}, declared {EVENTS}")
    for e in sm.allowed_events:
        if getattr(e, "_sm", None) is not sm:
            raise Mismatch("allowed-events-not-bound", f"{e!r} is not bound to the instance")
    ctx.cover("allowed-events-listed")
