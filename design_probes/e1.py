import warnings; warnings.simplefilter("ignore")
from statemachine import StateMachine, State, Event
from statemachine.exceptions import TransitionNotAllowed
log = []
class M(StateMachine):
    a = State(initial=True); b = State(); c = State(final=True)
    connect = a.to(b, after="succeed", on="do")
    succeed = b.to(c)
    def do(self, *args, **kwargs): log.append(("do@machine", args, sorted(k for k in kwargs)))
    def on_succeed(self, *args, **kwargs): log.append(("on_succeed", args, {k: v for k, v in kwargs.items() if k in ("x", "event", "source")}))
    def on_enter_state(self, state, event, source): log.append(("enter", state.id, str(event), getattr(source, "id", None)))
class Mod:
    state = None
    def do(self, x=None): log.append(("do@model", x)); return "model"
sm = M(Mod()); log.clear()
print("E1 result:", sm.connect(1, 2, x=5, source="user"))
for l in log: print("  ", l)

# E2 exception in cond
class G(StateMachine):
    a = State(initial=True); b = State(); c = State()
    go = a.to(b, cond="boom") | a.to(c)
    back = b.to(a) | c.to(a)
    def boom(self): raise KeyError("g")
sm = G()
try: sm.go()
except Exception as e: print("E2 cond raising ->", type(e).__name__, sm.current_state.id)

# E4 result ordering
class R(StateMachine):
    a = State(initial=True)
    loop = a.to.itself(before="b_inline", on=["o_inline", lambda: "lam"])
    def b_inline(self): return "b_inline"
    def o_inline(self): return "o_inline"
    def before_transition(self): return "before_transition"
    def before_loop(self): return "before_loop"
    def on_transition(self): return "on_transition"
    def on_loop(self): return "on_loop"
    def after_loop(self): return "after_loop"
    def on_enter_a(self): return "enter"
    @loop.before
    def deco_before(self): return "deco_before"
    @loop.on
    def deco_on(self): return "deco_on"
class L:
    def before_loop(self): return "L.before_loop"
    def on_transition(self): return "L.on_transition"
print("E4:", R(listeners=[L()]).loop())

# E6 decorator-declared event
class D(StateMachine):
    a = State(initial=True); b = State()
    @a.to(b)
    def go(self, x=0): return ("go", x)
    back = b.to(a)
    def on_go(self): return "on_go"
sm = D(); print("E6:", sm.go(x=3), [str(e) for e in sm.events], [t.event for t in D.a.transitions])

# E7 from_.any
class A(StateMachine):
    a = State(initial=True); b = State(); c = State(final=True)
    go = a.to(b)
    stop = c.from_.any(cond="ok")
    ok = True
    def on_stop(self, source): return ("stop from", source.id)
print("E7:", [(s.id, [(t.event, t.target.id) for t in s.transitions]) for s in A.states], A().stop())

# E8 internal
class I(StateMachine):
    a = State(initial=True)
    k = a.to.itself(internal=True, before="bf", on="on_", after="af")
    def bf(self, state): log.append(("bf", state.id)); return 1
    def on_(self): return 2
    def af(self, state): log.append(("af", state.id)); return 3
    def on_exit_a(self): log.append("EXIT")
    def on_enter_a(self): log.append("ENTER")
log.clear(); sm = I(); log.clear(); print("E8:", sm.k(), log)

# E9 start_value
class S(StateMachine):
    a = State(initial=True); b = State()
    go = a.to(b); back = b.to(a)
    def on_enter_state(self, state, source, event, target): log.append(("enter", state.id, repr(source.id), str(event), target.id))
log.clear(); sm = S(start_value="b"); print("E9:", sm.current_state.id, log)

# E13
sm = S()
try: sm.send("back")
except TransitionNotAllowed as e: print("E13:", type(e.event).__name__, repr(e.event), e.event == "back", type(e.state).__name__, e.state == S.a, str(e))
try: sm.send("nope")
except TransitionNotAllowed as e: print("E13b:", repr(e.event), e.event.name, str(e))
# E14
print("E14:", [type(e).__name__ for e in sm.events], sm.allowed_events[0](), sm.current_state.id)
class T: pass
t = T(); sm.bind_events_to(t); print("E12:", t.back(), sm.current_state.id, hasattr(t, "go"))
