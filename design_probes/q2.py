import sys, asyncio
from crosshair.tracers import NoTracing
from statemachine import StateMachine, State
import drv, sym

class AM(StateMachine):
    a = State(initial=True); b = State(); c = State()
    go = a.to(b, cond=["g1", "g2", "g3", "g4"]) | a.to(c)
    back = b.to(a) | c.to(a)
    v = [False]*4
    async def g1(self): return self.v[0]
    async def g2(self):
        await asyncio.sleep(0); return self.v[1]
    async def g3(self): return self.v[2]
    async def g4(self): return self.v[3]

def check() -> bool:
    ctx = sym.Ctx()
    with NoTracing():
        sm = AM()
    ok = True
    for step in range(2):
        sm.v = [ctx.bool("g") for _ in range(4)]
        sm.send("go")
        exp = "b" if (sm.v[0] and sm.v[1] and sm.v[2] and sm.v[3]) else "c"
        ok = ok and sm.current_state.id == exp
        sm.send("back")
    return ok

if __name__ == "__main__":
    import time
    t=time.time()
    r = drv.run(check, timeout=float(sys.argv[1]))
    print({k:(v if k not in('fail','exc') else v[:3]) for k,v in r.items()}, round(time.time()-t,1))
