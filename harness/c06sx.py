"""C06 companion (SX): the real dispatch code under CrossHair's tracer with other senders' complete sends injected at
every shared operation.

The engine's deque and lock are replaced by subclasses that, before each shared operation (append, popleft, clear,
emptiness test, iteration/len, acquire, release), ask the solver (`choose(2)`) whether the next pending sender's
*complete* `send` runs right there, on the same OS thread.  This is sound because `threading.Lock` has no owner: a
same-thread `acquire(False)` of a held lock fails exactly as a foreign one.  It explores the stack-like subset of
schedules (another sender's whole send nested inside one operation window of the current one) - exactly the shape
of the "enqueue between the last emptiness test and the release" race - on the *real* code, whatever its syntax, so
it keeps working where the AST encoder answers Unsupported.  Callbacks may enqueue one nested event or fail.
"""

from __future__ import annotations

from collections import deque
from threading import Lock

from vfw.ctx import Mismatch

PROPERTY = "C06"


class Fail(RuntimeError):
    pass


class Injector:
    def __init__(self, ctx, sm, pending, payload=lambda who: who):
        self.payload = payload
        self.ctx = ctx
        self.sm = sm
        self.pending = list(pending)
        self.n = 0
        self.trace = []
        self.injected_at = {}
        self.stack = []  # injected senders whose send is in progress (innermost last)
        self.parent = {}  # injected sender -> the injected sender inside whose send it was let in (None: the main sender's)

    def point(self, op):
        while self.pending:
            self.n += 1
            if not self.ctx.choose(2, f"inject@{op}#{self.n}"):
                return
            who = self.pending.pop(0)
            self.injected_at[who] = op
            self.parent[who] = self.stack[-1] if self.stack else None
            self.trace.append(("inject", who, op))
            self.stack.append(who)
            try:
                self.sm.send("tick", eid=self.payload(who))
            except Fail:
                self.trace.append(("raised-to", who))
            finally:
                self.stack.pop()
            self.trace.append(("returned", who))


class GDeque(deque):
    inj = None

    def append(self, x):
        self.inj.point("append")
        return super().append(x)

    def popleft(self):
        self.inj.point("popleft")
        return super().popleft()

    def clear(self):
        self.inj.point("clear")
        self.inj.trace.append(("clear", [getattr(t, "kwargs", {}).get("eid") for t in list(deque.__iter__(self))]))
        return super().clear()

    def __bool__(self):
        self.inj.point("emptiness-test")
        return deque.__len__(self) > 0

    def __iter__(self):
        self.inj.point("iterate")
        return deque.__iter__(self)


class GLock:
    def __init__(self, inj):
        self.lock = Lock()
        self.inj = inj

    def acquire(self, blocking=True, timeout=-1):
        self.inj.point("acquire")
        return self.lock.acquire(blocking)

    def release(self):
        self.inj.point("release")
        return self.lock.release()

    def locked(self):
        return self.lock.locked()


def tasks(tier):
    out = []
    for others in ((1,) if tier == "quick" else (1, 2)):
        for nested in (False, True):
            for fails in (False, True):
                out.append({"others": others, "nested": nested, "fails": fails, "same_payload": False})
    # asyncio: while a callback is suspended, another task runs a complete send() or activate_initial_state()
    for action in ("send", "activate", "both"):
        for fails in (False, True):
            if tier == "quick" and action == "both" and fails:
                continue
            out.append({"kind": "async-suspend", "action": action, "fails": fails, "nested": True})
    out.append({"kind": "burst", "engine": "sync"})
    out.append({"kind": "burst", "engine": "async"})
    out.append({"others": 1, "nested": False, "fails": False, "same_payload": True})
    out.append({"others": 2 if tier != "quick" else 1, "nested": True, "fails": False, "same_payload": True})
    return out


BUDGET = {
    "quick": {"max_secs": 300, "task_secs": 200, "path_secs": 30},
    "thorough": {"max_secs": 1800, "task_secs": 1500, "path_secs": 60},
}
OBLIGATIONS = ["async-other-task-ran", "async-sequential", "injected", "sequential", "burst-all-processed"]


def run_async_suspend(ctx, params):
    """All-async machine on a real event loop.  Inside a callback of the event being processed (the only place where
    the running task can change) another task's complete `await sm.send(...)` or `await sm.activate_initial_state()`
    runs - awaited right there, which is the schedule "the other task ran while this one was suspended"."""
    import asyncio

    from statemachine import State, StateMachine

    with ctx.notracing():
        class AConc(StateMachine):
            a = State(initial=True)
            tick = a.to.itself()

            async def on_tick(self, eid):
                return await self.hook(eid)

            async def on_enter_a(self, event):
                # the initial activation is an event like the others: its enter callback may be suspended too
                if str(event) == "__initial__":
                    await self.hook("__init__")

        sm = AConc()
        inj = Injector(ctx, sm, [])
        q = GDeque()
        q.inj = inj
        if not hasattr(sm._engine, "_external_queue") or not hasattr(sm._engine, "_processing"):
            return
        for x in list(sm._engine._external_queue):
            deque.append(q, x)
        sm._engine._external_queue = q
    log = inj.trace
    inside = [0]
    overlap = [False]
    began = {}
    sent = []
    failing = set()
    actions = {"send": ["send"], "activate": ["activate"], "both": ["send", "activate"]}[params["action"]]
    pending = [("B", a) for a in actions]

    async def hook(eid):
        inside[0] += 1
        if inside[0] > 1:
            overlap[0] = True
        began[eid] = began.get(eid, 0) + 1
        log.append(("begin", eid))
        try:
            if params["nested"] and eid != "__init__" and not str(eid).endswith("'") and ctx.choose(2, f"nested@{eid}"):
                child = f"{eid}'"
                sent.append(child)
                await sm.send("tick", eid=child)
            while pending and ctx.choose(2, f"suspend@{eid}#{len(pending)}"):
                who, act = pending.pop(0)
                log.append(("other-task", act, "during", eid))
                if act == "send":
                    name = f"{who}{len(sent)}"
                    sent.append(name)
                    r = await sm.send("tick", eid=name)
                    if r is not None:
                        raise Mismatch("send-while-busy-returned-a-result:asyncio", f"{r!r}: {log}")
                else:
                    await sm.activate_initial_state()
                log.append(("other-task-returned", act))
            if params["fails"] and ctx.choose(2, f"fails@{eid}"):
                failing.add(eid)
                log.append(("fail", eid))
                raise Fail(eid)
            log.append(("end", eid))
        finally:
            inside[0] -= 1

    sm.hook = hook

    def quiescent(after):
        # every call made so far has returned: nothing may be left waiting in the queue
        left_ = deque.__len__(q)
        if left_:
            raise Mismatch(f"event-lost-or-stranded:asyncio:{params['action']}", f"{left_} event(s) still queued after {after} returned (every sender has returned): {log}")

    async def main():
        sent.append("__init__")
        try:
            await sm.activate_initial_state()
        except Fail:
            log.append(("raised-to", "activation"))
        log.append(("returned", "activation"))
        quiescent("activate_initial_state()")
        for top in ("A", "Z"):
            sent.append(top)
            try:
                await sm.send("tick", eid=top)
            except Fail:
                log.append(("raised-to", top))
            log.append(("returned", top))
            quiescent(f"send({top})")
        # whatever was not scheduled inside a callback runs afterwards
        while pending:
            who, act = pending.pop(0)
            if act == "send":
                sent.append(who)
                try:
                    await sm.send("tick", eid=who)
                except Fail:
                    pass
            else:
                await sm.activate_initial_state()

    asyncio.run(main())
    tag = f"asyncio:{params['action']}"
    if overlap[0]:
        raise Mismatch(f"callbacks-overlap:{tag}", f"{log}")
    twice = [e for e, c in began.items() if c > sent.count(e)]
    if twice:
        raise Mismatch(f"event-processed-twice:{tag}", f"{twice}: {log}")
    dropped = set()
    for rec in log:
        if rec[0] == "clear":
            dropped |= set(rec[1])
    never = [e for e in set(sent) if began.get(e, 0) < sent.count(e)]
    lost = [e for e in never if e not in dropped or not failing]
    left = deque.__len__(q)
    if lost or left:
        raise Mismatch(f"event-lost-or-stranded:{tag}", f"never processed {lost}, left in queue {left}: {log}")
    order = [r[1] for r in log if r[0] == "begin"]
    exp_order = [e for e in sent if e in order]
    if order != exp_order:
        raise Mismatch(f"events-out-of-order:{tag}", f"sent {sent}, processed {order}: {log}")
    lk = sm._engine._processing
    if lk.locked() if hasattr(lk, "locked") else False:
        raise Mismatch(f"lock-held-at-quiescence:{tag}", f"{log}")
    ctx.cover("async-other-task-ran" if any(r[0] == "other-task" for r in log) else "async-sequential")
    ctx.note({"events": sent, "failing": sorted(failing)})


def run(ctx, params):
    if params.get("kind") == "async-suspend":
        return run_async_suspend(ctx, params)
    if params.get("kind") == "burst":
        # the transition system gives the queue as many slots as the configuration can fill: "append never drops" is an
        # assumption of the encoding, validated here against the real engine (concrete run)
        from harness.eng_common import burst_check

        return burst_check(ctx, params["engine"], "C06")
    from statemachine import State, StateMachine

    with ctx.notracing():
        class Conc(StateMachine):
            a = State(initial=True)
            tick = a.to.itself()

            def on_tick(self, eid):
                return self.hook(eid)

        sm = Conc()
        others = [f"B{i}" for i in range(params["others"])]
        same = params.get("same_payload")
        payload = (lambda who: "X") if same else (lambda who: who)
        inj = Injector(ctx, sm, others, payload)
        q = GDeque()
        q.inj = inj
        if not hasattr(sm._engine, "_external_queue") or not hasattr(sm._engine, "_processing"):
            return  # the anchored attributes are gone: the companion has nothing to hook (the encoder part still runs)
        sm._engine._external_queue = q
        sm._engine._processing = GLock(inj)
    log = inj.trace
    inside = [0]
    overlap = [False]
    began = {}
    nested_of = {}
    failing = set()

    def hook(eid):
        inside[0] += 1
        if inside[0] > 1:
            overlap[0] = True
        began[eid] = began.get(eid, 0) + 1
        log.append(("begin", eid))
        try:
            if params["nested"] and not str(eid).endswith("'") and ctx.choose(2, f"nested@{eid}"):
                child = f"{eid}'"
                nested_of[eid] = nested_of.get(eid, []) + [child]
                sm.send("tick", eid=child)
            if params["fails"] and ctx.choose(2, f"fails@{eid}"):
                failing.add(eid)
                log.append(("fail", eid))
                raise Fail(eid)
            log.append(("end", eid))
        finally:
            inside[0] -= 1

    sm.hook = hook
    try:
        sm.send("tick", eid=payload("A"))
    except Fail:
        log.append(("raised-to", "A"))
    log.append(("returned", "A"))
    # senders that were not injected anywhere send afterwards, one after the other
    while inj.pending:
        who = inj.pending.pop(0)
        inj.injected_at[who] = "afterwards"
        try:
            sm.send("tick", eid=payload(who))
        except Fail:
            pass
    sent = [payload(x) for x in ["A"] + others] + [c for cs in nested_of.values() for c in cs]
    tag = f"others={params['others']}"
    if overlap[0]:
        raise Mismatch(f"callbacks-overlap:{tag}", f"{log}")
    twice = [e for e, c in began.items() if c > sent.count(e)]
    if twice:
        raise Mismatch(f"event-processed-twice:{tag}", f"{twice}: {log}")
    # an event that never began must have been in the queue when a failing event cleared it
    dropped = set()
    for k, rec in enumerate(log):
        if rec[0] == "clear":
            dropped |= {e for e in rec[1]}
    never = [e for e in set(sent) if began.get(e, 0) < sent.count(e)]
    lost = [e for e in never if e not in dropped or not failing]
    left = deque.__len__(q)
    if lost or left:
        where = sorted({inj.injected_at.get(e, "?") for e in others})
        def in_window(w):
            # let in right before a drainer's release, or inside the send of a sender that was (the whole nested send
            # happens between that drainer's last emptiness test and its release)
            seen_ = set()
            while w is not None and w not in seen_:
                seen_.add(w)
                if inj.injected_at.get(w) == "release":
                    return True
                w = inj.parent.get(w)
            return False

        at_release = [w for w in others if in_window(w)]
        missing = sum(sent.count(e) - began.get(e, 0) for e in set(lost))
        if at_release and left == len(at_release) and missing == len(at_release):
            # exactly the senders that were let in right before the drainer's release are the ones left in the queue
            raise Mismatch("Q3-stranded:threads:put-between-final-emptiness-test-and-release", f"sender(s) {at_release} injected right before the drainer's release: {left} event(s) left in the queue; {log}")
        raise Mismatch(f"event-lost-or-stranded:{tag}", f"never processed {lost}, left in queue {left}, injected at {where}: {log}")
    if sm._engine._processing.locked():
        raise Mismatch(f"lock-held-at-quiescence:{tag}", f"{log}")
    ctx.cover("injected" if any(r[0] == "inject" for r in log) else "sequential")
    ctx.note({"injected_at": dict(inj.injected_at), "events": sent, "failing": sorted(failing)})
