import sys
from collections import deque
from threading import Lock
from crosshair.tracers import NoTracing
from statemachine import StateMachine, State
import drv, sym

class C(StateMachine):
    a = State(initial=True)
    tick = a.to.itself()
    def on_tick(self, who):
        self.log.append(("begin", who)); self.log.append(("end", who))

class Inject:
    def __init__(self, ctx, sm, senders):
        self.ctx = ctx; self.sm = sm; self.pending = list(senders); self.returned = []
        self.depth = 0
    def point(self, op):
        while self.pending and self.ctx.choose(2, "inj"):
            who = self.pending.pop(0)
            self.sm.send("tick", who=who)
            self.returned.append(who)

class GDeque(deque):
    inj = None
    def append(self, x): self.inj.point("append"); return super().append(x)
    def popleft(self): self.inj.point("popleft"); return super().popleft()
    def clear(self): self.inj.point("clear"); return super().clear()
    def __len__(self): self.inj.point("len"); return super().__len__()
class GLock:
    def __init__(self, inj): self.l = Lock(); self.inj = inj
    def acquire(self, blocking=True): self.inj.point("acquire"); return self.l.acquire(blocking)
    def release(self): self.inj.point("release"); return self.l.release()

def check() -> bool:
    ctx = sym.Ctx()
    with NoTracing():
        sm = C(); sm.log = []
        inj = Inject(ctx, sm, ["B"] if sys.argv[1] == "2" else ["B", "C"])
        q = GDeque(); q.inj = inj
        sm._engine._external_queue = q
        sm._engine._processing = GLock(inj)
    sm.send("tick", who="A")
    inj.point("end")   # remaining senders run after A returned
    while inj.pending:
        who = inj.pending.pop(0); sm.send("tick", who=who)
    done = [w for (k, w) in sm.log if k == "end"]
    ok = sorted(done) == sorted(["A", "B"] + (["C"] if sys.argv[1] == "3" else [])) and deque.__len__(q) == 0
    if not ok:
        with NoTracing(): print("FAIL", ctx.drawn, sm.log, deque.__len__(q))
    return ok

if __name__ == "__main__":
    import time
    t=time.time()
    r = drv.run(check, timeout=float(sys.argv[2]))
    print({k:(v if k not in('fail','exc') else v[:3]) for k,v in r.items()}, round(time.time()-t,1))
