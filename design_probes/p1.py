from typing import List, Tuple
from statemachine import StateMachine, State
from statemachine.exceptions import TransitionNotAllowed

class M(StateMachine):
    a = State(initial=True)
    b = State()
    c = State()
    go = a.to(b, cond="g1", unless="g2") | a.to(c, cond=["g1", "g3"]) | a.to(a, cond="g3") | b.to(c) | c.to(a)
    go_back = b.to(a) | c.to(b, unless="g1")
    g1 = False
    g2 = False
    g3 = False

EVENTS = ["go", "go_back", "g", "nope"]

def oracle(state, ev, g1, g2, g3):
    table = {
        ("a", "go"): [("b", g1 and not g2), ("c", g1 and g3), ("a", g3)],
        ("b", "go"): [("c", True)],
        ("c", "go"): [("a", True)],
        ("b", "go_back"): [("a", True)],
        ("c", "go_back"): [("b", not g1)],
    }
    for tgt, ok in table.get((state, ev), []):
        if ok:
            return tgt
    return None

def drive(steps: List[Tuple[int, bool, bool, bool]]) -> bool:
    """
    pre: len(steps) <= 3
    pre: all(0 <= s[0] < 4 for s in steps)
    post: _
    """
    sm = M()
    cur = "a"
    for (ei, g1, g2, g3) in steps:
        sm.g1, sm.g2, sm.g3 = g1, g2, g3
        ev = EVENTS[ei]
        exp = oracle(cur, ev, g1, g2, g3)
        try:
            sm.send(ev)
            raised = False
        except TransitionNotAllowed:
            raised = True
        if exp is None:
            if not raised or sm.current_state.id != cur:
                return False
        else:
            if raised or sm.current_state.id != exp:
                return False
            cur = exp
    return True
