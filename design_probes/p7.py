import sys, copy, pickle
from crosshair.tracers import NoTracing
from crosshair.core import IgnoreAttempt, realize
from statemachine import StateMachine, State
import drv, sym

class D(StateMachine):
    a = State(initial=True); b = State(); c = State(final=True)
    go = a.to(b, cond="g") | b.to(c)
    keep = a.to.itself(internal=True, on="k") | b.to.itself()
    g = True
    def k(self): pass

def check() -> bool:
    ctx = sym.Ctx()
    with NoTracing():
        sm = D()
    cur = ctx.choose(3)
    fin = [ctx.bool("f") for _ in range(3)]
    with NoTracing():
        sm.current_state_value = ["a","b","c"][cur]
        for i, s in enumerate(D.states): s._final = fin[i]
    g = sm._graph()
    with NoTracing():
        for i, s in enumerate(D.states): s._final = (i == 2)
    nodes = {n.get_name(): n for n in g.get_nodes()}
    ok = True
    for i, sid in enumerate(["a","b","c"]):
        n = nodes[sid]
        ok = ok and (n.get("peripheries") == (2 if fin[i] else 1))
        ok = ok and ((n.get("fillcolor") == "turquoise") == (i == cur))
    edges = sorted((e.get_source(), e.get_destination()) for e in g.get_edges())
    ok = ok and edges == sorted([("i","a"),("a","b"),("b","c"),("b","b")])
    return ok

if __name__ == "__main__":
    import time
    t=time.time()
    r = drv.run(check, timeout=float(sys.argv[1]))
    print({k:(v if k not in('fail','exc') else v[:3]) for k,v in r.items()}, round(time.time()-t,1))
