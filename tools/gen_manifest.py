#!/usr/bin/env python3
"""Regenerate /verif/MANIFEST.json from the table below (single source of truth for the interface)."""

import json
import os

HERE = os.path.dirname(os.path.dirname(os.path.abspath(__file__)))

SX = "bounded symbolic execution of the real library code (CrossHair engine + z3), path tree explored to exhaustion, counterexamples replayed concretely"

CHECKS = {
    # id: (technique, level text, level note, design ref)
    "C01": (
        SX + "; differential against a reference transition-selection oracle",
        "Every path of send() through the real engines is explored for the bounded machine families with symbolic guard "
        "values and validator faults; the solver shows no feasible path is left (exhaustive within the bounds in the evidence).",
        "Trusts CrossHair's opcode-level model of CPython and z3; machine construction is native; the oracle (first "
        "candidate without a failing guard, all guards read) is the reading of the statement; bounds: see evidence.bounds.",
        "DESIGN.md section 4 C01",
    ),
}

NOT_YET = "check not built yet in this round (planned: symbolic execution harness per DESIGN.md section 4)"


def main():
    props = [json.loads(line) for line in open(os.path.join(HERE, "properties.jsonl"))]
    checks = []
    na = []
    for p in props:
        pid = p["id"]
        if pid in CHECKS:
            tech, text, note, ref = CHECKS[pid]
            checks.append(
                {
                    "property_id": pid,
                    "quick_cmd": f"./vf check {pid} --tier quick",
                    "thorough_cmd": f"./vf check {pid} --tier thorough",
                    "evidence_file": f"evidence/{pid}.json",
                    "replay_cmd_template": "./vf replay {path}",
                    "engine": "bmc" if pid == "C06" else "symx",
                    "level_claimed": {"category": "model_checking", "text": text, "design_ref": ref},
                    "level_note": note,
                    "technique": tech,
                }
            )
        else:
            na.append({"property_id": pid, "reason": NA.get(pid, NOT_YET)})
    manifest = {
        "version": 1,
        "setup_cmd": "./vf setup",
        "hooks": {
            "guard": "PYSM_VERIF",
            "enable": "no hooks are needed: checks import /repo's working tree unmodified (PYSM_VERIF is reserved and unused)",
            "baseline_off_cmd": "./vf baseline-off",
            "source_commits": [],
            "add_only": True,
        },
        "engines": [
            {
                "name": "symx",
                "path": "vfw/symx.py",
                "serves_properties": [c["property_id"] for c in checks if c["engine"] == "symx"],
                "kind_free_text": "path-exhausting symbolic execution of the real Python code on CrossHair's StateSpace/tracer with z3; harness + reference oracle per property; concrete replay of every counterexample",
            },
        ],
        "checks": checks,
        "not_applicable": na,
        "notes": "Exit codes: 0 held on everything explored (KNOWN-FINDING lines for listed defects), 1 VIOLATION (reproduced concretely), 2 harness error/inconclusive. Evidence states bounds, path counts, exhaustion, z3 queries/time, functions executed symbolically.",
    }
    with open(os.path.join(HERE, "MANIFEST.json"), "w") as f:
        json.dump(manifest, f, indent=1)
        f.write("\n")


NA = {}

if __name__ == "__main__":
    main()
