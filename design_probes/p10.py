import sys, asyncio
from crosshair.tracers import NoTracing
from statemachine import StateMachine, State
import drv, sym

class C(StateMachine):
    a = State(initial=True)
    tick = a.to.itself()
    async def on_tick(self, who):
        self.log.append(("begin", who))
        for _ in range(self.ctx.choose(3, "yield")):
            await asyncio.sleep(0)
        self.log.append(("end", who))

LOOP = asyncio.new_event_loop()

def check() -> bool:
    ctx = sym.Ctx()
    with NoTracing():
        sm = C(); sm.log = []; sm.ctx = ctx
    async def sender(who, pre):
        for _ in range(pre): await asyncio.sleep(0)
        await sm.send("tick", who=who)
    async def main():
        pres = [ctx.choose(3, "pre") for _ in range(2)]
        await asyncio.gather(sender("A", pres[0]), sender("B", pres[1]))
    LOOP.run_until_complete(main())
    # no overlap: begin/end strictly alternate; both processed exactly once
    log = sm.log
    ok = len(log) == 4 and all(log[i][0] == ("begin" if i % 2 == 0 else "end") for i in range(4)) \
        and log[0][1] == log[1][1] and log[2][1] == log[3][1] and {log[0][1], log[2][1]} == {"A", "B"}
    if not ok:
        with NoTracing(): print("FAIL", ctx.drawn, log)
    return ok

if __name__ == "__main__":
    import time
    t=time.time()
    r = drv.run(check, timeout=float(sys.argv[1]))
    print({k:(v if k not in('fail','exc') else v[:3]) for k,v in r.items()}, round(time.time()-t,1))
