"""Draw contexts shared by harnesses.

`SymCtx` is used under CrossHair's tracer: structural draws (`choose`) are fresh z3 integers realised
through `StateSpace.find_model_value` (solver-enumerated, exhaustible model-value nodes); data draws
(`sym_int`, `sym_bool`, `sym_str`) stay z3 terms for the whole path.

`ReplayCtx` feeds the same harness from a recorded list of concrete draws and imports nothing from
CrossHair: it is the concrete replay against the real library.
"""

from __future__ import annotations


class Mismatch(BaseException):
    """The harness observed behaviour that contradicts the property.

    kind: stable, concrete classification (only built from `choose` draws and the class of the wrong
    behaviour) - it is what known_findings.json matches on and what a replay must reproduce.
    """

    def __init__(self, kind: str, msg: str = "", details=None):
        super().__init__(f"{kind}: {msg}")
        self.kind = kind
        self.msg = msg
        self.details = details


class Ignore(BaseException):
    """Assumption not met on this path (concrete contexts)."""


class HarnessError(BaseException):
    """The harness itself is broken (never a property verdict)."""


class BaseCtx:
    symbolic = False

    def __init__(self):
        self.draws = []  # [label, value]
        self.covered = set()
        self.notes = []
        self.findings = []  # kinds of known findings seen on this path

    def cover(self, name: str):
        self.covered.add(name)

    def note(self, *a):
        self.notes.append(a)

    # helpers shared by both contexts -------------------------------------------------
    def pick(self, seq, label):
        seq = list(seq)
        return seq[self.choose(len(seq), label)]

    def flag(self, label):
        return bool(self.choose(2, label))

    def subset(self, seq, label):
        return [x for x in seq if self.choose(2, f"{label}:{x}")]

    def notracing(self):
        import contextlib

        return contextlib.nullcontext()

    def check(self, cond, kind, msg="", details=None):
        """Assert `cond` (may be symbolic: branching on it forks the path)."""
        if not cond:
            raise Mismatch(kind, msg, details)


class ReplayCtx(BaseCtx):
    """Feeds recorded draws back by label (FIFO per label), so a replay does not depend on the order in which
    independent draws happen (e.g. asyncio starting guard coroutines in a different order in another process)."""

    def __init__(self, draws):
        super().__init__()
        self._feed = {}
        for lab, val in draws:
            self._feed.setdefault(lab, []).append(val)

    def _next(self, label, kind):
        q = self._feed.get(label)
        if not q:
            raise Ignore()  # this run asks for a value the recorded path never drew: not the recorded scenario
        val = q.pop(0)
        self.draws.append([label, val])
        return val

    def choose(self, n, label="c"):
        v = self._next(label, "choose")
        if not (isinstance(v, int) and 0 <= v < n):
            raise HarnessError(f"replay value {v!r} out of range for {label}")
        return v

    def sym_int(self, label="i", lo=None, hi=None):
        return int(self._next(label, "int"))

    def sym_bool(self, label="b"):
        return bool(self._next(label, "bool"))

    def sym_str(self, label="s", maxlen=None):
        return str(self._next(label, "str"))

    def assume(self, cond):
        if not cond:
            raise Ignore()

    def concrete(self, v):
        return v


class SymCtx(BaseCtx):
    symbolic = True

    def __init__(self, slice_mod=None):
        super().__init__()
        self._n = 0

    def _name(self, label):
        self._n += 1
        return f"{label}#{self._n}"

    def notracing(self):
        from crosshair.tracers import NoTracing

        return NoTracing()

    def choose(self, n, label="c"):
        import z3
        from crosshair.statespace import context_statespace
        from crosshair.tracers import NoTracing

        with NoTracing():
            if n == 1:
                self.draws.append([label, 0])
                return 0
            space = context_statespace()
            v = z3.Int(self._name(label))
            space.add(z3.And(v >= 0, v < n))
            val = space.find_model_value(v)
            self.draws.append([label, val])
            return val

    def sym_int(self, label="i", lo=None, hi=None):
        from crosshair.libimpl.builtinslib import SymbolicInt
        from crosshair.statespace import context_statespace
        from crosshair.tracers import NoTracing

        with NoTracing():
            space = context_statespace()
            s = SymbolicInt(self._name(label))
            if lo is not None:
                space.add(s.var >= lo)
            if hi is not None:
                space.add(s.var <= hi)
            self.draws.append([label, s])
            return s

    def sym_bool(self, label="b"):
        from crosshair.libimpl.builtinslib import SymbolicBool
        from crosshair.tracers import NoTracing

        with NoTracing():
            s = SymbolicBool(self._name(label))
            self.draws.append([label, s])
            return s

    def sym_str(self, label="s", maxlen=None):
        from crosshair.libimpl.builtinslib import LazyIntSymbolicStr
        from crosshair.statespace import context_statespace
        from crosshair.tracers import NoTracing

        with NoTracing():
            s = LazyIntSymbolicStr(self._name(label))
            self.draws.append([label, s])
        if maxlen is not None:
            self.assume(len(s) <= maxlen)
        return s

    def assume(self, cond):
        from crosshair.util import IgnoreAttempt

        if not cond:
            raise IgnoreAttempt("assumption")

    def concrete(self, v):
        from crosshair.core import deep_realize

        return deep_realize(v)
