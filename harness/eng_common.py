"""Shared scenario runner for C03 (run-to-completion), C04 (failing callbacks), C05 (async twins), C14 (results).

A scenario is a short history of top-level public calls on one machine instance.  During those calls the
generated callbacks may - by solver-enumerated choice at each invocation, under a total budget - send a nested
event or raise; before/on callbacks return symbolic values.  Every top-level call is judged by the trace
acceptor (vfw.scenario.Acceptor) from the state the previous call must have left, so stale queued events, a
wedged lock or a wrong state show up at the next call at the latest.
"""

from __future__ import annotations

import os

from vfw.ctx import Mismatch
from vfw.machines import render
from vfw.scenario import ANY, Acceptor, Script, accept_or_mismatch, next_call, outcome_of

STATES = ["a", "b", "c"]
EVENTS = ["go", "hop", "tick"]


def chain_am(asyncs_all=False, with_listener=True, with_model=False, drop=(), values=None):
    values = values or {}
    am = {
        "states": [{"id": "a", "initial": True, "value": values.get("a")}, {"id": "b", "value": values.get("b")}, {"id": "c", "value": values.get("c")}],
        "transitions": [
            {"src": "a", "tgt": "b", "events": ["go"], "validators": ["v0"]},
            {"src": "b", "tgt": "c", "events": ["go"], "cond": ["ok1"]},
            {"src": "c", "tgt": "a", "events": ["go"]},
            {"src": "a", "tgt": "c", "events": ["hop"]},
            {"src": "c", "tgt": "b", "events": ["hop"]},
            {"src": "b", "tgt": "b", "events": ["tick"], "internal": True},
            {"src": "a", "tgt": "a", "events": ["tick"]},
            {"src": "c", "tgt": "c", "events": ["tick"], "unless": ["no7"]},
        ],
        "methods": {
            "machine": ["v0", "ok1", "no7", "before_transition", "on_exit_state", "on_transition", "on_enter_state", "after_transition"],
        },
    }
    if with_listener:
        am["methods"]["listener0"] = ["on_transition", "after_transition", "on_enter_a"]
    if with_model:
        am["methods"]["model"] = ["before_transition", "on_exit_state"]
    for p in am["methods"]:
        am["methods"][p] = [n for n in am["methods"][p] if n not in drop]
    am["async"] = [[p, n] for p, ns in am["methods"].items() for n in ns] if asyncs_all else []
    return am


def guards_am(asyncs_all=False, with_listener=True):
    """Second template (thorough tiers): C01's T-guards machine (4 states incl. a final one, three candidates on (a, go),
    a transition bound to two events, internal transitions, cond + unless + expression guards, two validators) with
    the generic action callbacks on the machine and, optionally, a listener."""
    from harness.c01 import t_guards_am

    am = t_guards_am([])
    am["methods"]["machine"] = am["methods"]["machine"] + ["before_transition", "on_exit_state", "on_transition", "on_enter_state", "after_transition"]
    if with_listener:
        am["methods"]["listener0"] = ["on_transition", "after_transition", "on_enter_c"]
    am["async"] = [[p, n] for p, ns in am["methods"].items() for n in ns if n not in ("e2a", "e2b")] if asyncs_all else []
    return am


TEMPLATES = {
    "chain": {"states": STATES, "events": EVENTS},
    "guards": {"states": ["a", "b", "c", "d"], "events": ["go", "go_back", "hop"]},
}


def lib_root():
    import statemachine

    return os.path.dirname(os.path.abspath(statemachine.__file__))


def build(ctx, am, params, script_kw, class_name):
    with ctx.notracing():
        box = [None]
        r = render(am, box, class_name=class_name)
        script = Script(ctx, am, **script_kw)
        box[0] = script
        model = r["model_cls"]() if r["model_cls"] else None
        listeners = [c() for c in r["listener_classes"]]
    return r, script, model, listeners


def frame_check(ctx, sm, tag):
    """White-box part of the inductive frame: between top-level calls the queue is empty and the lock free."""
    eng = getattr(sm, "_engine", None)
    q = getattr(eng, "_external_queue", None)
    lk = getattr(eng, "_processing", None)
    if q is not None and len(q) != 0:
        raise Mismatch(f"queue-not-empty-after-call:{tag}", f"{len(q)} event(s) left in the engine queue")
    if lk is not None and hasattr(lk, "locked") and lk.locked():
        raise Mismatch(f"lock-held-after-call:{tag}", "processing lock still held after the call returned")


def run_history(ctx, params, script_kw, prop, class_name):
    """params: engine, rtc, allow, s0 (0..2 state index, 3 = from construction), calls, events (ids)."""
    is_async = params["engine"] != "sync"
    template = params.get("template", "chain")
    if template == "guards":
        am = guards_am(asyncs_all=is_async, with_listener=params.get("listener", True))
    else:
        am = chain_am(asyncs_all=is_async, with_listener=params.get("listener", True), with_model=params.get("model", False),
                      drop=params.get("drop", ()))
    t_states, t_events = TEMPLATES[template]["states"], TEMPLATES[template]["events"]
    r, script, model, listeners = build(ctx, am, params, script_kw, class_name)
    if params.get("base_exception"):
        script.raise_base_exception = True
    if params.get("where_top_only"):
        script.where = lambda provider, name, info: script._cur_trigger is script._first_trigger
    rtc, allow = params["rtc"], params["allow"]
    kw = {"rtc": rtc, "allow_event_without_transition": allow, "listeners": listeners}
    tag = f"{params['engine']}:rtc={rtc}"
    events = params.get("events", t_events)
    history = []
    pending_initial = False
    if params["s0"] == 3:
        ctx.cover("from-construction")
        if not is_async:
            out = outcome_of(lambda: r["cls"](model, **kw), r["cls"])
            if out[0] == "exc":
                # the constructor failed in an initial enter callback: nothing to drive further
                acc = Acceptor(am, script.log, rtc=rtc, allow=allow, is_async=False)
                accept_or_mismatch(acc, None, ["__initial__"], out, "init:" + tag, script.log)
                ctx.cover("ctor-failed")
                return
            sm = out[1]
            script.sm = sm
            acc = Acceptor(am, script.log, rtc=rtc, allow=allow, is_async=False)
            cur = accept_or_mismatch(acc, None, ["__initial__"], ("ret", ANY), "init:" + tag, script.log)
            ctx.check(sm.current_state.id == cur, "wrong-state:init:" + tag, f"expected {cur}, got {sm.current_state.id}")
            frame_check(ctx, sm, "init:" + tag)
        else:
            sm = r["cls"](model, **kw)
            script.sm = sm
            cur = None
            pending_initial = True
    else:
        with ctx.notracing():
            script.muted = True
            sm = r["cls"](model, **kw)
            if is_async:
                sm.activate_initial_state()
            sm.current_state_value = t_states[params["s0"]]
            script.muted = False
            script.sm = sm
        cur = t_states[params["s0"]]
    for k in range(params["calls"]):
        ev = events[ctx.choose(len(events), f"call{k}")]
        next_call(script, k)
        if "call_budgets" in params:
            script.budget = params["call_budgets"][k]
            script.taken = []
        out = outcome_of(lambda: sm.send(ev), sm)
        acc = Acceptor(am, script.log, rtc=rtc, allow=allow, is_async=is_async)
        evs = (["__initial__"] if pending_initial else []) + [ev]
        pending_initial = False
        new = accept_or_mismatch(acc, cur, evs, out, tag, script.log)
        got = sm.current_state.id
        ctx.check(got == new, f"wrong-state:{tag}", f"after send({ev}) from {cur}: expected {new}, machine in {got}; outcome {out!r}"[:400])
        frame_check(ctx, sm, tag)
        history.append({"pre": cur, "event": ev, "outcome": out[0] if out[0] == "ret" else out[1][0], "post": new, "records": len(script.log)})
        if out[0] == "exc":
            ctx.cover("failed-call:" + out[1][0])
            if k + 1 < params["calls"]:
                ctx.cover("call-after-failure")
        for rec in script.log:
            if rec[0] == "send":
                ctx.cover("nested-send")
            if rec[0] == "sendexc":
                ctx.cover("nested-send-failed")
        if len(acc.fired) > 1:
            ctx.cover("queued-event-ran")
            if script.values == "first_none" and out[0] == "ret":
                ctx.cover("first-result-none")
        cur = new
    if script.unawaited:
        ctx.cover("unawaited-nested-send")
    ctx.note(history)
    return script, am


def burst_check(ctx, engine, prop):
    """Concrete (not symbolic) run that backs one assumption of the symbolic checks: the event queue has no capacity.

    The bounded checks explore at most a handful of pending events; a queue with a capacity C (e.g. deque(maxlen=C))
    behaves like the unbounded one until C events are pending.  The capacity is read from the live engine object when it
    exposes one; the run sends capacity+1 (or 1100) events from inside one callback and requires that each one is
    processed, once, in the order sent."""
    import asyncio

    from statemachine import State, StateMachine

    from vfw.ctx import Mismatch

    with ctx.notracing():
        seen = []

        class Burst(StateMachine):
            a = State(initial=True)
            tick = a.to.itself()

            if engine == "async":
                async def on_tick(self, eid):
                    seen.append(eid)
                    if eid == 0:
                        for k in range(1, self.n + 1):
                            r = self.send("tick", eid=k)
                            if hasattr(r, "__await__"):
                                await r
            else:
                def on_tick(self, eid):
                    seen.append(eid)
                    if eid == 0:
                        for k in range(1, self.n + 1):
                            self.send("tick", eid=k)

        sm = Burst()
        q = getattr(getattr(sm, "_engine", None), "_external_queue", None)
        cap = getattr(q, "maxlen", None)
        n = cap + 1 if isinstance(cap, int) and 0 <= cap <= 200000 else 1100
        sm.n = n
        if engine == "async":
            async def go():
                await sm.send("tick", eid=0)

            asyncio.run(go())
        else:
            sm.send("tick", eid=0)
        want = list(range(n + 1))
    if seen != want:
        lost = sorted(set(want) - set(seen))
        raise Mismatch(
            f"events-lost-in-burst:{engine}",
            f"{n} events sent from inside one callback ({'queue capacity ' + str(cap) if cap is not None else 'no capacity visible'}): {len(seen) - 1} were processed; "
            f"first lost: {lost[:5]}; order kept: {seen == sorted(seen)}",
        )
    ctx.cover("burst-all-processed")
