"""C04 - a failing callback leaves a consistent, usable machine (SX; the fault position is a solver variable).

Same scripted scenarios as C03 with the additional action "raise Boom(k)" available at every callback invocation
(validators, guards, before, exit, on, enter, after; machine or listener; top-level, nested or queued event; the
initial enter callbacks) and "queued event that turns out not to be allowed" arising from nested sends.  After
every top-level call - failing or not - the history continues with further calls on the same instance, each
judged from the state the failure rule predicts, so stale events, a lock left held or a wrong state are seen.
"""

from __future__ import annotations

from harness.eng_common import EVENTS, run_history

PROPERTY = "C04"


def tasks(tier):
    quick = tier == "quick"
    out = []

    def hist(kind, engine, rtc, s0, first, allow=False):
        p = {"kind": kind, "engine": engine, "rtc": rtc, "allow": allow, "s0": s0, "first": first,
             "listener": not quick, "send_events": ["go"] if quick and s0 == 3 else ["go", "hop"]}
        if kind == "A":  # one call with (send)->(raise) | raise, then an action-free follow-up (thorough: two)
            p.update(calls=2 if quick else 3, call_budgets=[2, 0, 0], policy="send-then-raise", actions=["send", "raise"],
                     follow=["go"] if quick else ["go", "hop", "tick"])
        elif kind == "X":  # the failure is a BaseException (cancellation): no queued events involved; the machine must stay usable
            p.update(calls=2, call_budgets=[1, 0], policy=None, actions=["raise"], follow=["go"], base_exception=True)
        elif kind == "U":  # a nested send of a name the class does not declare (must be queued and refused when its turn comes)
            p.update(calls=2, call_budgets=[1, 0], policy=None, actions=["send"], follow=["go"], send_events=["nope"])
        elif kind == "C":  # two nested sends from the first event's own callbacks (a queued event may be refused with others behind it)
            p.update(calls=2, call_budgets=[2, 0], policy=None, actions=["send"], follow=["go"] if quick else ["go", "hop", "tick"], top_only=True)
        else:  # B: repeated failures: each of two consecutive calls may raise once; then an action-free call
            p.update(calls=3, call_budgets=[1, 1, 0], policy=None, actions=["raise"], follow=["go"] if quick else ["go", "hop", "tick"])
        out.append(p)

    for first in range(3):
        if quick:
            hist("A", "sync", True, 3, first)
            if first == 0:
                hist("A", "async", True, 3, first)
                hist("B", "sync", True, 0, first)
                hist("B", "async", True, 0, first)
            hist("A", "async", True, 0, first)
            for s0 in range(3):
                hist("A", "sync", True, s0, first)
            for s0 in (0, 2):
                hist("A", "sync", False, s0, first)
            if first != 2:
                hist("A", "sync", True, 0, first, allow=True)
            hist("C", "sync", True, 0, first)
            if first == 0:
                hist("C", "async", True, 0, first)
                hist("X", "sync", True, 0, first)
                hist("X", "async", True, 0, first)
                hist("U", "sync", True, 0, first)
                hist("U", "sync", False, 1, first)
                hist("U", "async", True, 2, first)
                hist("A", "sync", True, 1, first, allow=True)  # from b: a nested `hop` is valid only in the target state c
        else:
            for s0 in range(4):
                for kind in "ABCUX":
                    hist(kind, "async", True, s0, first)
                    hist(kind, "sync", True, s0, first)
                    hist(kind, "sync", False, s0, first)
                hist("A", "sync", True, s0, first, allow=True)
    # guards that are data attributes (properties) of the machine, the model or a listener and fail when they are read
    for engine in ("sync", "async"):
        for prov in ("machine", "model", "listener"):
            out.append({"kind": "property-guard", "engine": engine, "provider": prov, "spelling": ["name", "comparison", "boolean"][(len(out)) % 3]})
    if quick:
        # second template (C01's T-guards machine), one fault anywhere, then a follow-up
        for s0 in (1,):
            for engine, rtc in (("sync", True), ("async", True)):
                out.append({"kind": "A", "engine": engine, "rtc": rtc, "allow": False, "s0": s0, "first": 0, "listener": False,
                            "send_events": ["go"], "calls": 2, "call_budgets": [1, 0], "policy": None, "actions": ["raise"],
                            "follow": ["go"], "template": "guards", "event_names": ["go", "go_back", "hop"]})
    if not quick:
        # second template: the T-guards machine of C01 with generic action callbacks
        G_EVENTS = ["go", "go_back", "hop"]
        for first in range(3):
            for s0 in range(3):
                for engine, rtc in (("sync", True), ("sync", False), ("async", True)):
                    out.append({"kind": "A", "engine": engine, "rtc": rtc, "allow": False, "s0": s0, "first": first, "listener": False,
                                "send_events": ["go", "hop"], "calls": 2, "call_budgets": [2, 0, 0], "policy": "send-then-raise",
                                "actions": ["send", "raise"], "follow": ["go", "go_back"], "template": "guards", "event_names": G_EVENTS})
    return out


BUDGET = {
    "quick": {"max_secs": 900, "task_secs": 500, "path_secs": 30},
    "thorough": {"max_secs": 10800, "task_secs": 5000, "path_secs": 60},
}
BOUNDS = {
    "quick": "T-chain template. Scenario A: first call (event fixed per task) with either a raise, or a nested send {go,hop} optionally "
    "followed by a raise, each placed at any callback invocation (validator, guards, the 5 generic action callbacks; first, nested or queued "
    "transition; initial enter callback in the from-construction scenario), then an action-free follow-up call (go). Scenario C: two nested sends {go,hop} from the first event's own callbacks, then a follow-up. Scenario X: a BaseException (cancellation-like) raised at any invocation, then a follow-up. Scenario U: one nested send of an undeclared event name. Scenario B: two "
    "consecutive calls that may each raise at any invocation, then an action-free call. A second template (C01's T-guards machine) with one fault anywhere and a follow-up. Guards given as names of properties on machine / model / listener (used by name, inside a comparison `ready >= one`, or inside a boolean expression, by task) whose getter raises one of {RuntimeError, an AttributeError subclass, a KeyError subclass, a StopIteration subclass, TypeError} (sync and async engine). Engines sync rtc (all pre-states, also "
    "allow_event_without_transition), sync non-rtc (pre-states a, c), all-async (pre-state a; construction).",
    "thorough": "scenario A also on a second template (C01's T-guards machine: final state, three candidates, multi-event, internal, expression guard); two follow-up calls, follow-up events {go,hop,tick}, a listener adding 3 more callbacks per transition, all pre-states on every engine.",
}
OUTSIDE = "what happens to *queued* events when the failure is a BaseException (the engine deliberately clears the queue for Exception only; scenario X raises one without anything queued and only requires propagation, the state rule and a usable machine); more than 3 faults/sends per history; callbacks abandoned by a failed asyncio.gather may finish later (tolerated, see DESIGN 3.2 tolerance 3)"
OBLIGATIONS = ["property-guard-raised", "property-guard-decides", "failed-call:Boom", "failed-call:TNA", "call-after-failure", "nested-send", "queued-event-ran", "from-construction"]
ASSUMPTIONS = [
    "state after a failure: source for faults in validators/conditions/before/exit/on, target for enter/after (the acceptor tracks the phase of the observed raise)",
    "rtc=False: a failing nested event aborts the enclosing transition at the callback that sent it; the state is whatever the innermost failure left",
    "which group-mates of a raising callback already ran is not constrained",
]


class _AttrBoom(AttributeError):
    pass


class _KeyBoom(KeyError):
    pass


class _StopBoom(StopIteration):
    pass


EXC_KINDS = [RuntimeError, _AttrBoom, _KeyBoom, _StopBoom, TypeError]


def run_property_guard(ctx, params):
    """`cond="ready"` / `unless="blocked"` where the names are properties: reading them may raise - whatever the class of
    the exception (an AttributeError raised *inside* the getter is not 'the attribute does not exist')."""
    import asyncio

    from statemachine import State, StateMachine

    from vfw.ctx import Mismatch

    prov = params["provider"]
    is_async = params["engine"] == "async"
    with ctx.notracing():
        box = {"armed": None, "exc": None, "vals": {"ready": True, "blocked": False}, "reads": []}

        def mk(name):
            def getter(self):
                box["reads"].append(name)
                if box["armed"] == name:
                    box["exc"] = box["cls"](f"reading {name}")
                    raise box["exc"]
                return box["vals"][name]

            return property(getter)

        attrs = {}
        a, b = State(initial=True), State()
        spelled = params.get("spelling", "name")
        g_ready, g_blocked = ("ready", "blocked") if spelled == "name" else ("ready >= one", "blocked >= one") if spelled == "comparison" else ("not not ready", "blocked or blocked")
        attrs.update(a=a, b=b, go=a.to(b, cond=g_ready), back=b.to(a, unless=g_blocked), one=1)
        entered = []
        if is_async:
            async def on_enter_state(self, state):
                entered.append(state.id)
        else:
            def on_enter_state(self, state):
                entered.append(state.id)
        attrs["on_enter_state"] = on_enter_state
        holder = {"ready": mk("ready"), "blocked": mk("blocked")}
        if prov == "machine":
            attrs.update(holder)
        cls = type(StateMachine)("C04P", (StateMachine,), attrs)
        Other = type("Holder", (), dict(holder, state=None))
        if prov == "machine":
            sm = cls()
        elif prov == "model":
            sm = cls(Other())
        else:
            sm = cls(listeners=[Other()])
        if is_async:
            async def _act():
                await sm.activate_initial_state()

            asyncio.run(_act())
    start = ["a", "b"][ctx.choose(2, "start")]
    if start == "b":
        with ctx.notracing():
            sm.current_state_value = "b"
    ev, gname = ("go", "ready") if start == "a" else ("back", "blocked")
    armed = ctx.choose(2, "armed") == 1
    # (a StopIteration leaving a coroutine is turned into RuntimeError by Python itself, PEP 479: not offered on the async engine)
    kinds = [k for k in EXC_KINDS if not (is_async and k is _StopBoom)]
    box["cls"] = kinds[ctx.choose(len(kinds), "exc-class")] if armed else None
    box["armed"] = gname if armed else None
    val = ctx.sym_bool("guard-value")
    box["vals"][gname] = val

    def send(event):
        if is_async:
            async def go():
                return await sm.send(event)

            return asyncio.run(go())
        return sm.send(event)

    def passes():
        v = True if box["vals"][gname] else False
        return v if gname == "ready" else not v

    tag = f"{params['engine']}:{prov}"
    other = "b" if start == "a" else "a"
    del box["reads"][:]
    try:
        send(ev)
        got = ("ret",)
    except sm.TransitionNotAllowed:
        got = ("tna",)
    except Exception as e:  # noqa: BLE001
        got = ("exc", e)
    except BaseException as e:  # noqa: BLE001 - StopIteration subclasses are Exceptions; anything else is the tracer's
        raise
    if armed:
        if got[0] != "exc" or got[1] is not box["exc"]:
            raise Mismatch(f"guard-exception-swallowed:{tag}", f"reading the guard attribute `{gname}` raised {box['cls'].__name__.lstrip('_')}; send('{ev}') "
                           f"{'returned' if got[0] == 'ret' else 'raised TransitionNotAllowed' if got[0] == 'tna' else 'raised ' + repr(got[1])}; state {sm.current_state.id}")
        if sm.current_state.id != start:
            raise Mismatch(f"state-changed-by-failed-guard:{tag}", f"in {sm.current_state.id}")
        ctx.cover("property-guard-raised")
        box["armed"] = None
        try:
            send(ev)
            got = ("ret",)
        except sm.TransitionNotAllowed:
            got = ("tna",)
        ctx.cover("call-after-failure")
    want = ("ret",) if passes() else ("tna",)
    if got != want or sm.current_state.id != (other if passes() else start):
        raise Mismatch(f"property-guard-wrong:{tag}", f"{gname}={box['vals'][gname]!r}: send('{ev}') {got[0]}, state {sm.current_state.id}")
    ctx.cover("property-guard-decides")


def run(ctx, params):
    if params.get("kind") == "property-guard":
        return run_property_guard(ctx, params)
    names = params.get("event_names", EVENTS)
    first = names[params["first"]]
    script_kw = {"budget": params["call_budgets"][0], "actions": tuple(params["actions"]), "send_events": tuple(params["send_events"]),
                 "values": "int", "policy": params["policy"]}
    follow = params["follow"]

    class _Ctx:
        def __getattr__(self, k):
            return getattr(ctx, k)

        def choose(self, n, label="c"):
            if label == "call0":
                return names.index(first)
            if label.startswith("call"):
                return names.index(follow[ctx.choose(len(follow), label)])
            return ctx.choose(n, label)

    p = dict(params)
    p["events"] = names
    if params.get("top_only"):
        p["where_top_only"] = True
    if params.get("base_exception"):
        p["base_exception"] = True
    return run_history(_Ctx(), p, script_kw, PROPERTY, "C04M")
