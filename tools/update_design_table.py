#!/usr/bin/env python3
"""Rewrite the last column (quick paths / wall) of the per-property table in DESIGN.md from evidence/<id>.json."""
import json
import os
import re

root = os.path.dirname(os.path.dirname(os.path.abspath(__file__)))
p = os.path.join(root, "DESIGN.md")
s = open(p).read()


def fmt(n):
    return f"{n / 1000:.1f} k".replace(".0 k", " k") if n >= 1000 else str(n)


for i in range(1, 19):
    pid = f"C{i:02d}"
    ev = json.load(open(os.path.join(root, "evidence", pid + ".json")))
    cov = ev["coverage"]
    if pid == "C06":
        cell = f"{cov.get('z3_queries')} queries + {cov.get('sx_companion', {}).get('paths', 0)} companion paths / {round(ev['wall_s'])} s"
    else:
        cell = f"{fmt(cov.get('evaluations', 0))} / {round(ev['wall_s'])} s"
    s, n = re.subn(rf"(\n\| {pid} \|(?:[^|\n]*\|){{4}})[^|\n]*\|", lambda m: m.group(1) + " " + cell + " |", s)
    if n != 1:
        print("row not found", pid)
open(p, "w").write(s)
