"""symx - path-exhausting symbolic driver on CrossHair's engine (StateSpace + RootNode + tracer).

One *task* = one harness + one concrete parameter dict (a slice of the decision tree's top level);
it owns one RootNode and is explored path by path until CrossHair reports the tree exhausted (z3
showed that no feasible unexplored branch remains), a violation is found, or the budget ends.
"""

from __future__ import annotations

import hashlib
import importlib
import json
import os
import subprocess
import sys
import time
import traceback
from time import process_time

from .ctx import HarnessError, Ignore, Mismatch, SymCtx

VERIF_DIR = os.path.dirname(os.path.dirname(os.path.abspath(__file__)))
REPLAY_DIR = os.path.join(VERIF_DIR, "replays")


def repo_path():
    return os.environ.get("VERIF_REPO", "/repo")


def setup_repo_path():
    rp = repo_path()
    if sys.path[0] != rp:
        sys.path.insert(0, rp)


# --------------------------------------------------------------------------- z3 accounting
_Z3 = {"checks": 0, "secs": 0.0, "unknown": 0, "installed": False}


def _install_z3_counter():
    if _Z3["installed"]:
        return
    import z3

    orig = z3.Solver.check

    def check(self, *a):
        t = time.perf_counter()
        r = orig(self, *a)
        _Z3["secs"] += time.perf_counter() - t
        _Z3["checks"] += 1
        if r == z3.unknown:
            _Z3["unknown"] += 1
        return r

    z3.Solver.check = check
    _Z3["installed"] = True


def _drop_weakref_gc_patch():
    """CrossHair patches weakref.ref.__call__ to run gc.collect() first (a determinism aid, ~8 ms per deref).
    The library dereferences weakrefs on every state access; every weakly referenced object in our harnesses is
    kept alive by a strong reference, so the plain dereference is deterministic and the patch is dropped."""
    from weakref import ref

    import crosshair.core as core

    core._PATCH_REGISTRATIONS.pop(ref.__call__, None)
    # CrossHair also bypasses functools.lru_cache under tracing (every call recomputes).  Memoisation is real,
    # observable behaviour of the code under test (a cache keyed too coarsely is exactly what C16/C17 look for), so
    # the real cache is kept; symbolic values never reach an lru_cache key in our harnesses.
    from functools import _lru_cache_wrapper

    core._PATCH_REGISTRATIONS.pop(_lru_cache_wrapper.__call__, None)


# --------------------------------------------------------------------------- functions executed
class _Profiler:
    def __init__(self):
        self.funcs = set()
        self.root = os.path.join(os.path.realpath(repo_path()), "statemachine")
        from crosshair.tracers import is_tracing

        self.is_tracing = is_tracing

    def __call__(self, frame, event, arg):
        if event == "call" and self.is_tracing():
            co = frame.f_code
            fn = co.co_filename
            if fn.startswith(self.root):
                self.funcs.add(f"{os.path.relpath(fn, os.path.dirname(self.root))}:{co.co_qualname}")


def _jsonable(v):
    if v is None or type(v) in (bool, int, str):
        return v
    if isinstance(v, str):
        return str.__str__(v) if type(v).__module__.startswith("statemachine") else repr(v)
    if isinstance(v, float):
        return v
    if isinstance(v, (list, tuple)):
        return [_jsonable(x) for x in v]
    if isinstance(v, dict):
        return {str(k): _jsonable(x) for k, x in v.items()}
    return repr(v)


def load_known(prop):
    path = os.path.join(VERIF_DIR, "known_findings.json")
    if not os.path.exists(path):
        return []
    with open(path) as f:
        data = json.load(f)
    return [e for e in data.get("findings", []) if e.get("property") == prop and e.get("status") == "known"]


def match_known(known, kind):
    for e in known:
        if e["kind"] == kind:
            return e
    return None


def write_replay(prop, harness, params, draws, kind, msg, details):
    os.makedirs(REPLAY_DIR, exist_ok=True)
    body = {
        "property": prop,
        "harness": harness,
        "params": params,
        "draws": draws,
        "kind": kind,
        "message": msg,
        "details": _jsonable(details),
    }
    blob = json.dumps(body, sort_keys=True, indent=1)
    h = hashlib.sha1(blob.encode()).hexdigest()[:12]
    path = os.path.join(REPLAY_DIR, f"{prop}-{h}.json")
    with open(path, "w") as f:
        f.write(blob)
    return path


def run_replay_subprocess(path, timeout=300):
    """Concrete replay in a fresh process, no CrossHair. Returns (reproduced: bool|None, output)."""
    env = dict(os.environ)
    env["PYTHONPATH"] = VERIF_DIR + os.pathsep + env.get("PYTHONPATH", "")
    try:
        p = subprocess.run(
            [sys.executable, "-m", "vfw.cli", "replay", path],
            capture_output=True,
            text=True,
            timeout=timeout,
            cwd=VERIF_DIR,
            env=env,
        )
    except subprocess.TimeoutExpired:
        return None, "replay timed out"
    out = p.stdout + p.stderr
    if p.returncode == 1 and "REPRODUCED" in p.stdout:
        return True, out
    if p.returncode == 0:
        return False, out
    return None, out


def explore_task(spec):
    """Worker entry. spec: dict(module, params, seed, max_paths, max_secs, path_secs, task_id)."""
    setup_repo_path()
    import warnings

    warnings.filterwarnings("ignore", message="coroutine .* was never awaited", category=RuntimeWarning)
    t_wall = time.time()
    mod = importlib.import_module(spec["module"])
    prop = mod.PROPERTY
    params = spec["params"]
    res = {
        "task_id": spec["task_id"],
        "params": params,
        "paths": 0,
        "ok": 0,
        "ignored": 0,
        "unknown": 0,
        "exhausted": False,
        "findings": {},
        "covered": [],
        "samples": [],
        "funcs": [],
        "z3_checks": 0,
        "z3_secs": 0.0,
        "z3_unknown": 0,
        "violation": None,
        "error": None,
        "nonrepro": [],
    }
    try:
        _explore(mod, prop, params, spec, res)
    except (KeyboardInterrupt, SystemExit):
        raise
    except BaseException as e:  # harness / engine error: never a verdict
        res["error"] = f"{type(e).__name__}: {e}\n{traceback.format_exc()[-3000:]}"
    res["wall_s"] = round(time.time() - t_wall, 2)
    return res


def _explore(mod, prop, params, spec, res):
    import random

    from crosshair.condition_parser import condition_parser
    from crosshair.core import ExceptionFilter, Patched, deep_realize
    from crosshair.core_and_libs import standalone_statespace  # noqa: F401  (registers libimpl)
    from crosshair.statespace import (
        CallAnalysis,
        RootNode,
        StateSpace,
        StateSpaceContext,
        VerificationStatus,
    )
    from crosshair.tracers import COMPOSITE_TRACER, NoTracing, ResumedTracing
    from crosshair.util import IgnoreAttempt, NotDeterministic, UnexploredPath

    _install_z3_counter()
    _drop_weakref_gc_patch()
    z0 = dict(_Z3)
    known = load_known(prop)
    root = RootNode()
    root._random = random.Random(spec["seed"] * 1000003 + spec["task_id"])
    covered = set()
    prof = _Profiler()
    t0 = process_time()
    path_secs = spec.get("path_secs", 30.0)
    if hasattr(mod, "prepare"):
        mod.prepare(params)

    for it in range(spec["max_paths"]):
        st = process_time()
        if st - t0 > spec["max_secs"]:
            break
        space = StateSpace(
            execution_deadline=st + path_secs, model_check_timeout=path_secs / 2, search_root=root
        )
        ctx = SymCtx()
        status = None
        mismatch = None
        profile_this = it < 2
        with condition_parser([]), Patched(), COMPOSITE_TRACER, NoTracing(), StateSpaceContext(space):
            try:
                try:
                    with ExceptionFilter() as ef, ResumedTracing():
                        if profile_this:
                            sys.setprofile(prof)
                        try:
                            mod.run(ctx, params)
                        finally:
                            if profile_this:
                                sys.setprofile(None)
                except Mismatch as m:
                    mismatch = m
                    ef = None
                except Ignore:
                    raise IgnoreAttempt("harness ignore")
                if ef is not None and ef.user_exc:
                    exc = ef.user_exc[0]
                    if isinstance(exc, NotDeterministic):
                        raise NotDeterministic
                    tb = "".join(traceback.format_exception(type(exc), exc, exc.__traceback__))[-2500:]
                    mismatch = Mismatch(f"crash:{type(exc).__name__}", str(exc)[:300], tb)
                if ef is not None and ef.ignore:
                    status = None
                    res["ignored"] += 1
                elif mismatch is None:
                    status = VerificationStatus.CONFIRMED
                    res["ok"] += 1
                    if len(res["samples"]) < 3:
                        with ResumedTracing():
                            space.detach_path()
                            draws = [[lab, deep_realize(v)] for lab, v in ctx.draws]
                            notes = deep_realize(ctx.notes[:12])
                        res["samples"].append({"draws": _jsonable(draws), "notes": _jsonable(notes)})
                else:
                    with ResumedTracing():
                        mismatch.kind = str(deep_realize(mismatch.kind))
                    entry = match_known(known, mismatch.kind)
                    if entry is not None:
                        res["findings"][mismatch.kind] = res["findings"].get(mismatch.kind, 0) + 1
                        status = VerificationStatus.CONFIRMED
                        res["ok"] += 1
                    else:
                        with ResumedTracing():
                            space.detach_path()
                            draws = [[lab, deep_realize(v)] for lab, v in ctx.draws]
                            details = deep_realize(mismatch.details)
                            mkind = str(deep_realize(mismatch.kind))
                            mmsg = str(deep_realize(mismatch.msg))
                        draws = _jsonable(draws)
                        mismatch.kind, mismatch.msg = mkind, mmsg
                        path = write_replay(
                            prop, spec["module"], params, draws, mismatch.kind, mismatch.msg, details
                        )
                        status = VerificationStatus.CONFIRMED
                        res["_pending"] = (path, mismatch.kind, mismatch.msg)
            except IgnoreAttempt:
                status = None
                res["ignored"] += 1
            except UnexploredPath as e:
                status = VerificationStatus.UNKNOWN
                res["unknown"] += 1
                res.setdefault("unknown_reasons", [])
                if len(res["unknown_reasons"]) < 5:
                    res["unknown_reasons"].append(f"{type(e).__name__}: {str(e)[:200]}")
            covered |= ctx.covered
            res["paths"] += 1
            _a, exhausted = space.bubble_status(CallAnalysis(status))
        pending = res.pop("_pending", None)
        if pending:
            path, kind, msg = pending
            ok, out = run_replay_subprocess(path)
            if ok:
                res["violation"] = {"replay": path, "kind": kind, "msg": msg}
                break
            res["nonrepro"].append({"replay": path, "kind": kind, "msg": msg, "out": out[-1500:]})
            if len(res["nonrepro"]) >= 3:
                break
        if exhausted:
            res["exhausted"] = True
            break
    res["covered"] = sorted(covered)
    res["funcs"] = sorted(prof.funcs)
    res["z3_checks"] = _Z3["checks"] - z0["checks"]
    res["z3_secs"] = round(_Z3["secs"] - z0["secs"], 3)
    res["z3_unknown"] = _Z3["unknown"] - z0["unknown"]
    res["cpu_s"] = round(process_time() - t0, 2)


def replay_file(path):
    """Concrete replay. Returns (kind or None, message)."""
    from .ctx import ReplayCtx

    setup_repo_path()
    with open(path) as f:
        body = json.load(f)
    mod = importlib.import_module(body["harness"])
    if hasattr(mod, "prepare"):
        mod.prepare(body["params"])
    ctx = ReplayCtx(body["draws"])
    try:
        mod.run(ctx, body["params"])
    except Mismatch as m:
        return m.kind, m.msg, m.details, body
    except Ignore:
        return None, "assumption not met on replay", None, body
    except HarnessError:
        raise
    except Exception as e:
        tb = traceback.format_exc()[-2500:]
        return f"crash:{type(e).__name__}", str(e)[:300], tb, body
    return None, "no mismatch", None, body
