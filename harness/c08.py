"""C08 - guards: cond/unless conjunction and Python-faithful boolean expressions (SX, differential against Python).

Real code under the tracer: StateMachine.__init__ -> _register_callbacks -> Listeners.resolve/build ->
spec_parser.parse_boolean_expr / replace_operators / build_expression (so the closures are built under the
tracer), then send -> _activate -> CallbacksExecutor.all -> CallbackWrapper.call -> custom_and/or/not/comparators
-> attribute / property / method readers.

Solver-enumerated structure: the expression tree (grammar below), its spelling (word or symbol operators, spaced or
tight), whether it is used as `cond`, as `unless`, or inside a list next to a plain guard.
Solver variables: the value of every name (ints in [-2,2] or bools), drawn when read.
Oracle: Python itself - eval() of the word-operator spelling over a namespace that logs reads and hands out the
same symbolic values.
"""

from __future__ import annotations

from vfw.ctx import Mismatch

PROPERTY = "C08"

NAMES = ["alpha", "vault", "notify", "v1"]
CMP = ["==", "!=", "<", "<=", ">", ">="]
CHAIN_OPS = [("<", "<"), ("<", ">"), (">", "=="), ("<=", "!=")]
LEAF_Q = [("name", "alpha"), ("name", "vault"), ("name", "notify"), ("name", "v1"), ("lit", True), ("lit", 0)]
LEAF_T = LEAF_Q + [("lit", False), ("lit", 1)]


# ------------------------------------------------------------------------------------------ expression trees
def gen_depth1(leaves):
    out = []
    for a in leaves:
        out.append(a)
        out.append(("not", a))
    for a in leaves:
        for b in leaves:
            out.append(("and", a, b))
            out.append(("or", a, b))
            for op in CMP:
                out.append(("cmp", [op], [a, b]))
    n3 = [("name", "alpha"), ("name", "vault"), ("name", "v1")]
    for ops in CHAIN_OPS:
        out.append(("cmp", list(ops), n3))
        out.append(("cmp", list(ops), [("name", "notify"), ("lit", 0), ("name", "alpha")]))
    return out


def gen_depth2():
    """Reduced alphabet: three names; every combination of two binary/unary operators, both associations."""
    a, b, c = ("name", "alpha"), ("name", "vault"), ("name", "v1")
    out = []
    bin_ops = ["and", "or"]
    for o1 in bin_ops:
        for o2 in bin_ops:
            out.append((o1, a, (o2, b, c)))
            out.append((o1, (o2, a, b), c))
            out.append((o1, ("not", a), (o2, b, c)))
            out.append(("not", (o1, a, (o2, b, c))))
            out.append((o1, a, ("not", (o2, b, c))))
        for op in CMP[:4]:
            out.append((o1, ("cmp", [op], [a, b]), c))
            out.append((o1, a, ("cmp", [op], [b, c])))
            out.append(("not", ("cmp", [op], [a, b])))
            out.append((o1, ("not", a), ("cmp", [op], [b, ("lit", 1)])))
    for o1 in bin_ops:
        for op in (">=", "==", "<"):
            out.append(("cmp", [op], [(o1, a, b), c]))
            out.append(("cmp", [op], [a, (o1, b, c)]))
            out.append(("cmp", [op], [("not", a), b]))
    for o1 in bin_ops:
        out.append((o1, (o1, a, b), (o1, c, ("name", "notify"))))
        out.append((o1, a, (o1, b, (o1, c, ("name", "notify")))))
    return out


PREC = {"or": 1, "and": 2, "not": 3, "cmp": 4, "name": 9, "lit": 9}


def render(e, style, parent=0, right=False):
    """style: word | symbol | tight (symbol operators, no optional blanks) | wtight (word operators, tight comparisons)."""
    k = e[0]
    if k == "name":
        return e[1]
    if k == "lit":
        return repr(e[1])
    sym = style in ("symbol", "tight")
    tight = style in ("tight", "wtight")
    if k == "not":
        inner = render(e[1], style, PREC["not"])
        s = ("!" + inner) if sym else ("not " + inner)
    elif k in ("and", "or"):
        left = render(e[1], style, PREC[k])
        rgt = render(e[2], style, PREC[k], right=True)
        if k == "and":
            op = ("^" if tight else " ^ ") if sym else " and "
        else:
            op = " v " if sym else " or "
        s = left + op + rgt
    else:
        ops, es = e[1], e[2]
        parts = [render(es[0], style, PREC["cmp"] + 1)]
        for op, x in zip(ops, es[1:]):
            parts.append(op if tight else f" {op} ")
            parts.append(render(x, style, PREC["cmp"] + 1))
        s = "".join(parts)
    need = PREC[k] < parent or (PREC[k] == parent and right and k in ("and", "or"))
    if k == "cmp" and parent >= PREC["cmp"] + 1:
        need = True
    if k == "not" and parent > PREC["not"]:
        need = True
    return f"({s})" if need else s


def names_in(e):
    if e[0] == "name":
        return [e[1]]
    if e[0] == "lit":
        return []
    if e[0] == "not":
        return names_in(e[1])
    if e[0] == "cmp":
        return [n for x in e[2] for n in names_in(x)]
    return names_in(e[1]) + names_in(e[2])


def tree_eval(e, read):
    """Independent evaluator of the tree with Python's semantics (second voice next to eval())."""
    k = e[0]
    if k == "name":
        return read(e[1])
    if k == "lit":
        return e[1]
    if k == "not":
        return not tree_eval(e[1], read)
    if k == "and":
        left = tree_eval(e[1], read)
        return tree_eval(e[2], read) if left else left
    if k == "or":
        left = tree_eval(e[1], read)
        return left if left else tree_eval(e[2], read)
    import operator as o

    fn = {"==": o.eq, "!=": o.ne, "<": o.lt, "<=": o.le, ">": o.gt, ">=": o.ge}
    left = tree_eval(e[2][0], read)
    for op, x in zip(e[1], e[2][1:]):
        rgt = tree_eval(x, read)
        if not fn[op](left, rgt):
            return False
        left = rgt
    return True


REJECT_SYNTAX = ["alpha and", "alpha or or vault", "(alpha", "alpha vault", "not", "alpha && vault", "alpha ^", "! ", "alpha >= ", "1 +"]
REJECT_UNKNOWN = ["ghost", "alpha and ghost", "!ghost", "ghost >= 1", "alpha v ghost", "(ghost)", "not ghost or alpha", "Alpha", "alpha and NOT vault"]
REJECT_OUTSIDE = ["alpha + vault", "alpha if vault else v1", "alpha.real", "[alpha]", "alpha(1)", "-alpha", "alpha is vault", "alpha in vault"]


# ------------------------------------------------------------------------------------------------ tasks
def tasks(tier):
    quick = tier == "quick"
    out = []
    d1 = gen_depth1(LEAF_Q if quick else LEAF_T)
    chunk = 16 if quick else 24
    styles = ["word", "symbol", "tight"] if quick else ["word", "symbol", "tight", "wtight"]
    for style in styles:
        for lo in range(0, len(d1), chunk):
            out.append({"kind": "expr", "depth": 1, "style": style, "lo": lo, "hi": min(len(d1), lo + chunk), "provider": "method",
                        "vkind": "int", "quick": quick})
    d2 = gen_depth2()
    for style in (["word", "tight"] if quick else styles):
        for lo in range(0, len(d2), 8):
            out.append({"kind": "expr", "depth": 2, "style": style, "lo": lo, "hi": min(len(d2), lo + 8), "provider": "method",
                        "vkind": "int", "quick": quick})
    for provider in ("attribute", "property", "model", "async"):
        for lo in range(0, len(d2), 16):
            out.append({"kind": "expr", "depth": 2, "style": "symbol", "lo": lo, "hi": min(len(d2), lo + 16), "provider": provider,
                        "vkind": "int" if provider == "async" else "bool", "quick": quick})
    # how the guarded transition is declared: a.to(b, ...), b.from_(a, ...), b.from_.any(...) (copied per source state)
    k = 0
    for t in out:
        t["attach"] = ["to", "any", "from"][k % 3]
        k += 1
    out.append({"kind": "reject"})
    out.append({"kind": "paren-pairs"})
    out.append({"kind": "callables"})
    out.append({"kind": "fresh-reads"})
    return out


BUDGET = {
    "quick": {"max_secs": 600, "task_secs": 400, "path_secs": 30},
    "thorough": {"max_secs": 7200, "task_secs": 3000, "path_secs": 60},
}
BOUNDS = {
    "quick": "all depth-1 expressions over leaves {alpha, vault, notify, v1, True, 0}: leaf, not, and, or, the six comparisons, four chained "
    "comparisons; spelled with word operators, symbol operators, and symbol operators without optional blanks; 42 depth-2 trees over three names "
    "(both associations of and/or, not over compounds, comparisons under and/or) in word and tight spelling; each used as cond, as unless, and as an "
    "(the guarded transition declared as a.to(b, ...), b.from_(a, ...) or b.from_.any(...), by task) "
    "element of cond=[plain, expr]; comparisons over and/or/not operands with int values; names provided by machine methods (reads logged; values symbolic ints in [-2,2] / bools), and - depth 2, "
    "symbol spelling - by plain attributes, properties, the model, coroutine methods (plain names only); 5 pairs of expressions differing only in parentheses used together in one cond list; three candidates of one event sharing one guard whose value changes between reads (4 spellings, cond / unless); entries given as callables (two / three lambdas, lambda + name, two functions sharing a __name__, one function twice, lambda cond + lambda unless) with symbolic values; 27 strings that must be rejected at instantiation, alone and next to valid guard entries.",
    "thorough": "leaves also False and 1, word operators with tight comparisons, int values at depth 2.",
}
OUTSIDE = "nesting deeper than 2; string/float literals and values; names spelled exactly 'v'; coroutine operands inside expressions (C05, known finding); guard names provided by several objects at once (C12)"
OBLIGATIONS = ["fresh-read-per-candidate", "callable-entries", "paren-pair", "fired", "blocked", "short-circuit", "chained", "tight-spelling", "rejected-syntax", "rejected-unknown-name", "rejected-outside-grammar", "unless", "list"]
ASSUMPTIONS = [
    "read order is compared after collapsing immediately repeated reads of one name: the library reads the middle operand of a chained comparison twice, which tests/test_spec_parser.py pins (xfail 'evaluate once')",
    "valid Python outside the documented grammar (a + b, a.b, a if b else c) does not parse as a guard expression: rejected with InvalidDefinition when the machine is instantiated, like a syntax error",
    "the machine class is built natively per path; instantiation (expression parsing) and send() run under the tracer",
]


class ReadNS(dict):
    def __init__(self, reader):
        super().__init__()
        self.reader = reader

    def __getitem__(self, k):
        if k in ("True", "False", "None"):
            raise KeyError(k)
        return self.reader(k)


def collapse(seq):
    out = []
    for x in seq:
        if not out or out[-1] != x:
            out.append(x)
    return out


PAREN_PAIRS = [
    ("alpha or vault and v1", "(alpha or vault) and v1"),
    ("alpha and vault or v1", "alpha and (vault or v1)"),
    ("not alpha and vault", "not (alpha and vault)"),
    ("alpha or vault or v1", "alpha or (vault or v1)"),
    ("alpha == vault and v1", "alpha == (vault and v1)"),
]


def run_paren_pairs(ctx):
    """cond=[e1, e2] where e2 is e1 with other parentheses: both are valid, both must be honoured."""
    from statemachine import State, StateMachine
    from statemachine.exceptions import InvalidDefinition

    e1, e2 = PAREN_PAIRS[ctx.choose(len(PAREN_PAIRS), "pair")]
    if ctx.choose(2, "swap"):
        e1, e2 = e2, e1
    vals = {n: ctx.sym_int(f"val.{n}", -1, 1) for n in ("alpha", "vault", "v1")}
    with ctx.notracing():
        attrs = {"a": State(initial=True), "b": State()}
        attrs["go"] = attrs["a"].to(attrs["b"], cond=[e1, e2])
        attrs["back"] = attrs["b"].to(attrs["a"])
        for n in vals:
            attrs[n] = (lambda n: lambda self: vals[n])(n)
            attrs[n].__qualname__ = f"C08P.{n}"
        cls = type(StateMachine)("C08P", (StateMachine,), attrs)
    try:
        sm = cls()
    except InvalidDefinition as e:
        raise Mismatch("valid-expression-rejected:list-of-two-differing-in-parentheses", f"cond=[{e1!r}, {e2!r}]: {e}")
    try:
        sm.send("go")
        fired = True
    except sm.TransitionNotAllowed:
        fired = False
    want = bool(eval(e1, {}, dict(vals))) and bool(eval(e2, {}, dict(vals)))  # noqa: S307
    if fired != want:
        raise Mismatch("expression-value-differs-from-python:paren-pair", f"cond=[{e1!r}, {e2!r}]: Python says {want}, transition {'fired' if fired else 'blocked'}", {"values": dict(vals)})
    ctx.cover("paren-pair")


def run_callable_entries(ctx):
    """cond / unless three candidates of one event sharing one guard whose value changes between reads (4 spellings, cond / unless); entries given as callables (lambdas, plain functions, the same function twice, functions that
    merely share a __name__), alone and mixed with names: the transition is enabled iff every cond entry is truthy and
    every unless entry is falsy."""
    from statemachine import State, StateMachine
    from statemachine.exceptions import InvalidDefinition

    shapes = ["two-lambdas", "lambda+name", "same-name-functions", "same-function-twice", "lambda-cond+lambda-unless", "three-lambdas"]
    shape = shapes[ctx.choose(len(shapes), "shape")]
    vals = [ctx.sym_int(f"val.{i}", -1, 1) for i in range(3)]
    calls = []

    def reader(i):
        def f(*a, **k):
            calls.append(i)
            return vals[i]

        return f

    with ctx.notracing():
        def mk_named(i):
            def check(*a, **k):  # same __name__ for every i
                calls.append(i)
                return vals[i]

            return check

        l0 = lambda *a, **k: (calls.append(0), vals[0])[1]  # noqa: E731
        l1 = lambda *a, **k: (calls.append(1), vals[1])[1]  # noqa: E731
        l2 = lambda *a, **k: (calls.append(2), vals[2])[1]  # noqa: E731
        kw, conds, unlesses = {}, [], []
        if shape == "two-lambdas":
            kw["cond"] = [l0, l1]
            conds = [0, 1]
        elif shape == "three-lambdas":
            kw["cond"] = [l0, l1, l2]
            conds = [0, 1, 2]
        elif shape == "lambda+name":
            kw["cond"] = [l0, "named"]
            conds = [0, 1]
        elif shape == "same-name-functions":
            kw["cond"] = [mk_named(0), mk_named(1)]
            conds = [0, 1]
        elif shape == "same-function-twice":
            kw["cond"] = [l0, l0]
            conds = [0]
        else:
            kw["cond"] = [l0]
            kw["unless"] = [l1, l2]
            conds, unlesses = [0], [1, 2]
        attrs = {"a": State(initial=True), "b": State()}
        attrs["go"] = attrs["a"].to(attrs["b"], **kw)
        attrs["back"] = attrs["b"].to(attrs["a"])
        attrs["named"] = lambda self: (calls.append(1), vals[1])[1]
        attrs["named"].__qualname__ = "C08C.named"
        cls = type(StateMachine)("C08C", (StateMachine,), attrs)
    try:
        sm = cls()
    except InvalidDefinition as e:
        raise Mismatch(f"valid-callable-entries-rejected:{shape}", f"{shape}: instantiation raised {e}")
    del calls[:]
    try:
        sm.send("go")
        fired = True
    except sm.TransitionNotAllowed:
        fired = False
    want = all(bool(vals[i]) for i in conds) and not any(bool(vals[i]) for i in unlesses)
    if fired != want:
        raise Mismatch(f"callable-entries-not-a-conjunction:{shape}", f"{shape}: values {[int(v) for v in vals]}, transition {'fired' if fired else 'blocked'}, expected {'fired' if want else 'blocked'}; entries evaluated {calls}")
    if fired and sorted(set(calls)) != sorted(conds + unlesses):
        raise Mismatch(f"callable-entry-not-evaluated:{shape}", f"{shape}: the transition fired but only entries {calls} were evaluated")
    ctx.cover("callable-entries")


def run_fresh_reads(ctx):
    """Two or three candidate transitions of one event share a guard (same name / same expression): each evaluation
    reads the *current* value - a value that changed after an earlier candidate was refused decides the later one."""
    from statemachine import State, StateMachine

    spellings = ["flip", "flip and steady", "not flip", "flip == 1"]
    sp = spellings[ctx.choose(len(spellings), "spelling")]
    usage = ["cond", "unless"][ctx.choose(2, "usage")]
    seq = [ctx.sym_int(f"flip.{i}", 0, 1) for i in range(3)]
    reads = []

    def flip(self):
        k = len(reads)
        reads.append(k)
        return seq[min(k, 2)]

    with ctx.notracing():
        a, b, c, d = State(initial=True), State(), State(), State()
        kw = {usage: sp}
        attrs = {"a": a, "b": b, "c": c, "d": d, "go": a.to(b, **kw) | a.to(c, **kw) | a.to(d, **kw), "back": b.to(a) | c.to(a) | d.to(a),
                 "flip": flip, "steady": lambda self: True}
        attrs["flip"].__qualname__ = "C08F.flip"
        attrs["steady"].__qualname__ = "C08F.steady"
        cls = type(StateMachine)("C08F", (StateMachine,), attrs)
    sm = cls()
    del reads[:]
    try:
        sm.send("go")
        got = sm.current_state.id
    except sm.TransitionNotAllowed:
        got = "refused"

    def passes(v):
        v = int(v)
        val = {"flip": bool(v), "flip and steady": bool(v), "not flip": not v, "flip == 1": v == 1}[sp]
        return val if usage == "cond" else not val

    want = "refused"
    for k, tgt in enumerate(("b", "c", "d")):
        if passes(seq[k]):
            want = tgt
            break
    if got != want:
        raise Mismatch(f"guard-value-reused-across-candidates:{usage}", f"{usage}={sp!r} on three candidates; flip returned {[int(x) for x in seq]} on successive reads ({len(reads)} read(s) happened): expected {want}, got {got}")
    ctx.cover("fresh-read-per-candidate")


def run(ctx, params):
    if params["kind"] == "fresh-reads":
        return run_fresh_reads(ctx)
    if params["kind"] == "callables":
        return run_callable_entries(ctx)
    if params["kind"] == "reject":
        return run_reject(ctx)
    if params["kind"] == "paren-pairs":
        return run_paren_pairs(ctx)
    from statemachine import State, StateMachine
    from statemachine.exceptions import InvalidDefinition

    pool = gen_depth1(LEAF_Q if params["quick"] else LEAF_T) if params["depth"] == 1 else gen_depth2()
    pool = pool[params["lo"] : params["hi"]]
    tree = pool[ctx.choose(len(pool), "expr")]
    usage = ["cond", "unless", "list"][ctx.choose(3, "usage")]
    style = params["style"]
    text = render(tree, style)
    py = render(tree, "word")
    provider = params["provider"]
    tag = f"{provider}:{style}"
    vals = {}
    reads = []

    def value_of(n):
        if n not in vals:
            vals[n] = ctx.sym_bool(f"val.{n}") if params["vkind"] == "bool" else ctx.sym_int(f"val.{n}", -2, 2)
        return vals[n]

    def impl_read(n):
        reads.append(n)
        return value_of(n)

    with ctx.notracing():
        attrs = {"a": State(initial=True), "b": State()}
        kw = {}
        if usage == "cond":
            kw["cond"] = text
        elif usage == "unless":
            kw["unless"] = text
        else:
            kw["cond"] = ["plain", text]
        attach = params.get("attach", "to")
        if attach == "any":
            attrs["go"] = attrs["b"].from_.any(**kw)
        elif attach == "from":
            attrs["go"] = attrs["b"].from_(attrs["a"], **kw)
        else:
            attrs["go"] = attrs["a"].to(attrs["b"], **kw)
        attrs["back"] = attrs["b"].to(attrs["a"])
        holder = {}
        for n in NAMES + ["plain"]:
            if provider == "method":
                attrs[n] = (lambda n: lambda self: impl_read(n))(n)
            elif provider == "property":
                attrs[n] = property((lambda n: lambda self: impl_read(n))(n))
            elif provider == "async" and n == "plain":
                async def plain(self):
                    return impl_read("plain")

                attrs[n] = plain
            elif provider == "async":
                attrs[n] = (lambda n: lambda self: impl_read(n))(n)
        for n in NAMES + ["plain"]:
            f = attrs.get(n)
            if callable(f):
                f.__qualname__ = f"C08.{provider}.{n}"
        cls = type(StateMachine)("C08M", (StateMachine,), attrs)
        model = None
        if provider == "model":
            mattrs = {n: property((lambda n: lambda self: impl_read(n))(n)) for n in NAMES + ["plain"]}
            mattrs["__init__"] = lambda self: setattr(self, "state", None)
            model = type("C08Model", (), mattrs)()
    try:
        if provider == "attribute":
            # plain attributes must exist when the machine is instantiated; they are re-assigned before the event
            def init(self, *a, **k):
                for n in NAMES + ["plain"]:
                    setattr(self, n, 0)
                StateMachine.__init__(self, *a, **k)

            with ctx.notracing():
                cls.__init__ = init
            sm = cls()
        else:
            sm = cls(model)
    except InvalidDefinition as e:
        if style in ("tight", "wtight") or True:
            raise Mismatch(f"valid-expression-rejected:{shape_of(tree, text)}", f"{text!r} ({usage}) is in the documented grammar (Python: {py!r}) but instantiation raised: {e}")
    if provider == "async":
        sm.activate_initial_state()
    del reads[:]
    if provider == "attribute":
        for n in NAMES + ["plain"]:
            setattr(sm, n, value_of(n))
    # implementation
    try:
        sm.send("go")
        fired = True
    except sm.TransitionNotAllowed:
        fired = False
    impl_reads = list(reads)
    # oracle: Python
    oracle_reads = []

    def oracle_read(n):
        oracle_reads.append(n)
        return value_of(n)

    expr_truth = bool(eval(compile(py, "<expr>", "eval"), {}, ReadNS(oracle_read)))  # noqa: S307
    expr_reads = list(oracle_reads)
    if usage == "list":
        p = bool(value_of("plain"))
        truth = p and expr_truth
    else:
        truth = expr_truth
    second = []
    v2 = tree_eval(tree, lambda n: (second.append(n), value_of(n))[1])
    if bool(v2) != expr_truth or second != expr_reads:
        raise Mismatch("oracle-self-check", f"eval and tree evaluator disagree on {py!r}")
    expected_fire = truth if usage != "unless" else not truth
    if fired != expected_fire:
        raise Mismatch(
            f"expression-value-differs-from-python:{tag}:{usage}",
            f"{text!r} as {usage}: Python says {py!r} is {truth}, transition {'fired' if fired else 'blocked'}",
            {"values": dict(vals), "impl_reads": impl_reads, "python_reads": oracle_reads},
        )
    got_reads = collapse([r for r in impl_reads if r != "plain"])
    ok_reads = got_reads == collapse(expr_reads)
    if usage == "list" and not p and got_reads == []:
        ok_reads = True  # the list is a conjunction: entries after a falsy one need not be evaluated (sync short-circuits, async starts all)
    if usage == "list" and "plain" not in impl_reads:
        ok_reads = False
    if provider != "attribute" and not ok_reads:
        raise Mismatch(
            f"read-order-differs-from-python:{tag}:{usage}",
            f"{text!r} as {usage}: names read {impl_reads}, Python reads {expr_reads}",
            {"values": dict(vals)},
        )
    ctx.cover("fired" if fired else "blocked")
    if len(collapse(expr_reads)) < len(collapse(names_in(tree))):
        ctx.cover("short-circuit")
    if tree[0] == "cmp" and len(tree[1]) > 1:
        ctx.cover("chained")
    if style == "tight":
        ctx.cover("tight-spelling")
    ctx.cover(usage) if usage != "cond" else None
    ctx.note({"text": text, "python": py, "usage": usage, "fired": fired, "reads": impl_reads})


def shape_of(tree, text):
    """Coarse, concrete classification of a spelling (used to identify a finding, never symbolic)."""
    if " " not in text and "!" not in text:
        if tree[0] == "lit":
            return "lone-literal"
        if tree[0] == "cmp":
            return "tight-comparison"
        if tree[0] in ("and", "or"):
            return "tight-binary"
        return "tight-other"
    return "spaced"


def run_reject(ctx):
    from statemachine import State, StateMachine
    from statemachine.exceptions import InvalidDefinition

    pools = [("syntax", REJECT_SYNTAX), ("unknown-name", REJECT_UNKNOWN), ("outside-grammar", REJECT_OUTSIDE)]
    which, pool = pools[ctx.choose(3, "pool")]
    text = pool[ctx.choose(len(pool), "text")]
    usage = ["cond", "unless", "cond-list-after-valid", "cond-list-before-valid", "unless-next-to-valid-cond"][ctx.choose(5, "usage")]
    with ctx.notracing():
        attrs = {"a": State(initial=True), "b": State()}
        kw = {
            "cond": {"cond": text},
            "unless": {"unless": text},
            "cond-list-after-valid": {"cond": ["alpha", text]},
            "cond-list-before-valid": {"cond": [text, "alpha and vault"]},
            "unless-next-to-valid-cond": {"cond": "alpha", "unless": text},
        }[usage]
        attrs["go"] = attrs["a"].to(attrs["b"], **kw)
        attrs["back"] = attrs["b"].to(attrs["a"])
        for n in NAMES:
            attrs[n] = (lambda n: lambda self: True)(n)
            attrs[n].__qualname__ = f"C08R.{n}"
        cls = type(StateMachine)("C08R", (StateMachine,), attrs)
    try:
        sm = cls()
    except InvalidDefinition:
        ctx.cover(f"rejected-{which}")
        return
    except Exception as e:
        if type(e).__name__ == "NotDeterministic":
            raise
        raise Mismatch(f"rejected-with-wrong-exception:{which}", f"{text!r}: instantiation raised {type(e).__name__} instead of InvalidDefinition")
    # instantiation went through: the definition error can now only surface when an event arrives (or never)
    late = "nothing"
    try:
        sm.send("go")
    except Exception as e:
        if type(e).__name__ == "NotDeterministic":
            raise
        late = type(e).__name__
    raise Mismatch(f"invalid-expression-accepted:{which}", f"{text!r} as {usage} was accepted at instantiation; send('go') then gave {late}")
