"""C14 - event results come only from before/on return values, by the documented rule (SX).

Real code under the tracer: send -> ... -> _activate (result = before results + on results; 0 -> None,
1 -> unwrapped), CallbacksExecutor.call/async_call with the per-callback `is_same_event` filter.

Solver-enumerated structure: how the before and on groups are populated (none / generic / event-specific
convention / inline / all) on which providers, pre-state, event (incl. the second id of multi-event transitions,
internal and self transitions, a rejected first candidate), and which one callback invocation returns a value of
which awkward kind (None, [], [x], (), {}, "", an exception instance).  Solver variables: every other returned value (ints incl. 0) -
also the junk returned by validators, exit, enter and after callbacks, which must never surface.
"""

from __future__ import annotations

from harness.c02 import EVENTS, MIXES, STATES, build_am
from vfw.machines import render
from vfw.scenario import Acceptor, Script, accept_or_mismatch, outcome_of

PROPERTY = "C14"
MODES_Q = ["none", "specific", "all"]
MODES_T = ["none", "generic", "specific", "inline", "all"]


def tasks(tier):
    quick = tier == "quick"
    out = []
    for engine in ("sync", "async"):
        for mix in ((0, 1) if quick else range(len(MIXES))):
            for s0 in range(3):
                for mb in range(3 if quick else 5):
                    if quick and engine == "async" and mix == 1 and s0 != 0:
                        continue
                    out.append({"engine": engine, "rtc": True, "mix": mix, "s0": s0, "m_before": mb, "full": not quick})
    for s0 in range(3):
        for mb in (1, 2):  # the machine has event-specific callbacks; a listener with only generic ones is attached later
            out.append({"engine": "sync", "rtc": True, "mix": 0, "s0": s0, "m_before": mb, "full": not quick, "late": True})
    # "the outermost call returns the result of the first event": first event returns None, a queued one a value
    for engine in ("sync", "async"):
        for first in range(3):
            out.append({"kind": "first-none", "engine": engine, "rtc": True, "allow": False, "s0": 0, "first": first, "values": "first_none",
                        "calls": 1, "budget": 1, "listener": False, "drop": ["before_transition"], "send_events": ["go", "hop"]})
    # an event's own trigger used as a before/on callback (given by the event's name)
    for rtc in (False, True):
        for shape in ("before", "on", "before+on", "before+on+conv"):
            out.append({"kind": "event-callback", "rtc": rtc, "shape": shape})
    if not quick:
        for mb in range(5):
            for s0 in range(3):
                out.append({"engine": "sync", "rtc": False, "mix": 1, "s0": s0, "m_before": mb, "full": True})
    return out


BUDGET = {
    "quick": {"max_secs": 600, "task_secs": 400, "path_secs": 30},
    "thorough": {"max_secs": 7200, "task_secs": 3000, "path_secs": 60},
}
BOUNDS = {
    "quick": "T-actions template (C02); before and on groups populated {none, event-specific convention, all styles} independently; exit/enter/after "
    "present (generic) and returning junk; providers {machine} / {machine, model, listener}; every pre-state x event {go, hop, tick, jump}; "
    "a variant with a listener that has only generic callbacks attached after construction; one invocation (any of the first 4 value-returning ones, or none) returns one of None, [], [x], (), {}, '', an exception instance (returned, not raised); all other values symbolic ints in [-3,3]; a hand-written machine whose before / on callbacks are given as the names of other events (rtc False and True; with and without a convention on_<event> next to them; the nested event returning None or a symbolic int).",
    "thorough": "modes {none, generic, specific, inline, all}, provider mixes incl. listener-only and two listeners, also rtc=False.",
}
OUTSIDE = "more than one awkward value per event; values of other types (floats, objects); nested events (C03)"
OBLIGATIONS = ["event-trigger-as-callback", "first-event-none-with-queued-result", "late-generic-listener", "result-none", "result-single", "result-list", "special-value-returned", "internal", "multi-event-second-id", "no-transition"]
ASSUMPTIONS = [
    "result order inside the before group and inside the on group is free (the acceptor uses the observed order), before values precede on values",
    "values are compared by identity of kind and value: [] is not None, () is not [], 0 is not False",
]


def run_event_callback(ctx, params):
    """`finish = idle.to(done, before="tick", on="tock")` where tick and tock are events of the same machine: under
    rtc=False the nested event runs inside the callback and what its trigger returns is that callback's value."""
    from statemachine import State, StateMachine

    from vfw.ctx import Mismatch

    shape = params["shape"]
    kw = {}
    if "before" in shape:
        kw["before"] = "tick"
    if "on" in shape.split("+"):
        kw["on"] = "tock"
    with ctx.notracing():
        attrs = {}
        idle, done = State(initial=True), State()
        attrs.update(idle=idle, done=done, tick=idle.to.itself(), tock=idle.to.itself(), finish=idle.to(done, **kw), reset=done.to(idle))
        seen = []

        def on_tick(self):
            seen.append("tick")
            return self.v_tick

        def on_tock(self):
            seen.append("tock")
            return self.v_tock

        def after_transition(self):
            return "junk"

        attrs.update(on_tick=on_tick, on_tock=on_tock, after_transition=after_transition)
        if "conv" in shape:
            def on_finish(self):
                seen.append("finish")
                return self.v_fin

            attrs["on_finish"] = on_finish
        cls = type(StateMachine)("C14E", (StateMachine,), attrs)
    rtc = params["rtc"]
    sm = cls(rtc=rtc, allow_event_without_transition=True)
    none_tick = ctx.choose(2, "tick-returns-none") == 1
    sm.v_tick = None if none_tick else ctx.sym_int("v.tick")
    sm.v_tock = ctx.sym_int("v.tock")
    sm.v_fin = ctx.sym_int("v.fin")
    # a direct trigger first: its own result
    r0 = sm.send("tick")
    if not (r0 is sm.v_tick or (r0 is not None and sm.v_tick is not None and r0 == sm.v_tick)):
        raise Mismatch(f"wrong-result:event-callback:rtc={rtc}", f"tick returned {r0!r}, on_tick returned {sm.v_tick!r}")
    del seen[:]
    res = sm.send("finish")
    parts = []
    if "before" in kw:
        parts.append(sm.v_tick if not rtc else None)
    if "on" in kw:
        parts.append(sm.v_tock if not rtc else None)
    if "conv" in shape:
        parts.append(sm.v_fin)
    want = None if not parts else parts[0] if len(parts) == 1 else parts

    def same(a, b):
        if a is None or b is None:
            return a is b
        if isinstance(a, list) or isinstance(b, list):
            return isinstance(a, list) and isinstance(b, list) and len(a) == len(b) and all(same(x, y) for x, y in zip(a, b))
        return type(a) is not bool and a == b

    if not same(res, want):
        raise Mismatch(f"wrong-result:event-callback:rtc={rtc}", f"finish ({kw}{', on_finish' if 'conv' in shape else ''}) returned {res!r}, expected {want!r} "
                       f"(the value a callback that is an event trigger returns is the nested event's result under rtc=False, None when it is only queued)")
    exp_seen = [n for n in ("tick", "tock") if (n == "tick" and "before" in kw) or (n == "tock" and "on" in kw)]
    if not rtc:
        exp_seen = exp_seen + (["finish"] if "conv" in shape else [])
        if seen != exp_seen:
            raise Mismatch(f"wrong-sequence:event-callback:rtc={rtc}", f"callbacks ran {seen}, expected {exp_seen}")
    else:
        # queued: they are processed after finish, in `done`, where they are tolerated and ignored
        if seen != (["finish"] if "conv" in shape else []):
            raise Mismatch(f"wrong-sequence:event-callback:rtc={rtc}", f"callbacks ran {seen}")
    if sm.current_state.id != "done":
        raise Mismatch(f"wrong-state:event-callback:rtc={rtc}", f"in {sm.current_state.id}")
    ctx.cover("event-trigger-as-callback")


def run(ctx, params):
    if params.get("kind") == "event-callback":
        return run_event_callback(ctx, params)
    if params.get("kind") == "first-none":
        from harness import c03

        c03.run_first_fixed(ctx, dict(params, events=[["go", "hop", "tick"][params["first"]]]))
        ctx.cover("first-event-none-with-queued-result")
        return
    pool = MODES_T if params["full"] else MODES_Q
    modes = {"before": pool[params["m_before"]], "on": pool[ctx.choose(len(pool), "mode.on")],
             "exit": "generic", "enter": "generic", "after": "generic"}
    mix = MIXES[params["mix"]]
    is_async = params["engine"] == "async"
    late = params.get("late")
    with ctx.notracing():
        am = build_am(modes, mix, is_async)
        if late:
            am["methods"]["listener0"] = ["before_transition", "on_transition"]
        box = [None]
        r = render(am, box, class_name="C14M")
        script = Script(ctx, am, budget=0, values="special")
        box[0] = script
        if r["model_cls"] is not None:
            r["model_cls"].__len__ = lambda self: 0  # a falsy model (an empty container) is still the model whose callbacks count
        model = r["model_cls"]() if r["model_cls"] else None
        listeners = [c() for c in r["listener_classes"]]
        script.muted = True
        sm = r["cls"](model, rtc=params["rtc"], listeners=[] if late else listeners, allow_event_without_transition=bool(params["s0"] == 0))
        if is_async:
            sm.activate_initial_state()
        sm.current_state_value = STATES[params["s0"]]
        script.muted = False
        script.sm = sm
    if late:
        sm.add_listener(*listeners)
        ctx.cover("late-generic-listener")
    cur = STATES[params["s0"]]
    ev = EVENTS[ctx.choose(len(EVENTS), "ev")]
    out = outcome_of(lambda: sm.send(ev), sm)
    acc = Acceptor(am, script.log, rtc=params["rtc"], is_async=is_async, allow=bool(params["s0"] == 0))
    tag = f"{params['engine']}:rtc={params['rtc']}"
    new = accept_or_mismatch(acc, cur, [ev], out, tag, script.log)
    ctx.check(sm.current_state.id == new, "wrong-state:" + tag)
    if out[0] == "ret":
        v = out[1]
        if not acc.fired:
            ctx.cover("no-transition")
        elif v is None:
            ctx.cover("result-none")
        elif isinstance(v, list) and len(v) >= 2:
            ctx.cover("result-list")
        else:
            ctx.cover("result-single")
    if script.special_used:
        ctx.cover("special-value-returned")
    for (e, ti, src, tgt) in acc.fired:
        t = am["transitions"][ti]
        if t.get("internal"):
            ctx.cover("internal")
        if len(t["events"]) > 1 and e == t["events"][1]:
            ctx.cover("multi-event-second-id")
    ctx.note({"modes": {k: modes[k] for k in ("before", "on")}, "mix": mix, "pre": cur, "event": ev, "outcome": out[0], "special": script.special})
