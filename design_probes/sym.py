"""Symbolic draw helpers usable inside a harness run under drv.run (CrossHair statespace active)."""
import z3
from crosshair.tracers import NoTracing
from crosshair.statespace import context_statespace
from crosshair.libimpl.builtinslib import SymbolicInt, SymbolicBool

class Ctx:
    def __init__(self): self.drawn = []
    def choose(self, n, label="c"):
        """structural choice: solver-enumerated concrete int in [0,n)"""
        with NoTracing():
            space = context_statespace()
            v = z3.Int(f"{label}_{len(self.drawn)}")
            space.add(z3.And(v >= 0, v < n))
            import os
            if not self.drawn and os.environ.get('W'):
                W=int(os.environ['W']); w=int(os.environ['w']); space.add(v % W == w)
            val = space.find_model_value(v)
            self.drawn.append((label, val))
            return val
    def int(self, label="i", lo=None, hi=None):
        with NoTracing():
            space = context_statespace()
            s = SymbolicInt(f"{label}_{len(self.drawn)}")
            if lo is not None: space.add(s.var >= lo)
            if hi is not None: space.add(s.var <= hi)
            self.drawn.append((label, s))
            return s
    def bool(self, label="b"):
        with NoTracing():
            s = SymbolicBool(f"{label}_{len(self.drawn)}")
            self.drawn.append((label, s))
            return s
