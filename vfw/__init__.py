"""vfw - solver-based checking framework for python-statemachine (see /verif/DESIGN.md)."""
