import sys, copy, pickle
from crosshair.tracers import NoTracing
from crosshair.core import realize, proxy_for_type
from crosshair.statespace import context_statespace
from typing import List
from statemachine import StateMachine, State
from statemachine.exceptions import InvalidStateValue
import drv, sym

class V(StateMachine):
    z = State(value=0, initial=True); p = State(value=1); n = State(value=-1)
    go = z.to(p) | p.to(n) | n.to(z)

class Mod:
    def __init__(self): self.state = None

def check_write() -> bool:
    ctx = sym.Ctx()
    with NoTracing():
        m = Mod(); sm = V(m)
    w = ctx.int("w", -2, 3)
    before = m.state
    try:
        sm.current_state_value = w
        ok = (w in (0, 1, -1)) and m.state == w and sm.current_state.value == w
        # exactly one active
        act = [s.id for s in sm.states if getattr(sm, s.id).is_active]
        ok = ok and len(act) == 1
    except InvalidStateValue:
        ok = (w not in (0, 1, -1)) and m.state == before
    return ok

def check_truthy() -> bool:
    ctx = sym.Ctx()
    kind = ctx.choose(3)
    with NoTracing():
        space = context_statespace()
    if kind == 0: v = proxy_for_type(str, "s" + space.uniq())
    elif kind == 1: v = proxy_for_type(List[int], "l" + space.uniq())
    else: v = ctx.int("i")
    class G(StateMachine):
        a = State(initial=True); b = State(); c = State()
        go = a.to(b, cond="g") | a.to(c)
        back = b.to(a) | c.to(a)
        g = None
    with NoTracing():
        sm = G()
    sm.g = v
    sm.send("go")
    exp = "b" if (len(v) > 0 if kind < 2 else v != 0) else "c"
    return sm.current_state.id == exp

class P(StateMachine):
    a = State(initial=True); b = State(); c = State()
    go = a.to(b, cond="g") | a.to(c) | b.to(c) | c.to(a)
    g = False
    def __init__(self, *a, **k):
        self.custom = [1]; super().__init__(*a, **k)

def check_copy() -> bool:
    ctx = sym.Ctx()
    with NoTracing():
        sm = P(allow_event_without_transition=True)
    sm.g = ctx.bool("g"); sm.send("go")
    how = ctx.choose(2)
    gval = sm.g
    with NoTracing():
        sm.g = realize(gval)
    cl = copy.deepcopy(sm) if how == 0 else pickle.loads(pickle.dumps(sm))
    s0 = sm.current_state.id
    ok = cl.current_state.id == s0 and cl.model is not sm.model and cl.custom == [1] and cl.custom is not sm.custom
    ok = ok and cl.allow_event_without_transition is True
    cl.send("go")
    ok = ok and sm.current_state.id == s0
    return ok

if __name__ == "__main__":
    import time
    for fn in (check_write, check_truthy, check_copy):
        t=time.time()
        r = drv.run(fn, timeout=120)
        print(fn.__name__, {k:(v if k not in('fail','exc') else v[:3]) for k,v in r.items()}, round(time.time()-t,1))
