from typing import List, Tuple
from crosshair.tracers import NoTracing
from crosshair.core import IgnoreAttempt
from p1 import M, EVENTS, oracle, TransitionNotAllowed
import drv, sys

def drive(steps: List[Tuple[int, bool, bool, bool]]) -> bool:
    if not (len(steps) <= int(sys.argv[1])): raise IgnoreAttempt
    for s in steps:
        if not (0 <= s[0] < 4): raise IgnoreAttempt
    with NoTracing():
        sm = M()
    cur = "a"
    for (ei, g1, g2, g3) in steps:
        sm.g1, sm.g2, sm.g3 = g1, g2, g3
        ev = EVENTS[ei]
        exp = oracle(cur, ev, g1, g2, g3)
        try:
            sm.send(ev)
            raised = False
        except TransitionNotAllowed:
            raised = True
        if exp is None:
            if not raised or sm.current_state.id != cur:
                return False
        else:
            if raised or sm.current_state.id != exp:
                return False
            cur = exp
    return True

if __name__ == "__main__":
    import time
    t=time.time()
    print(drv.run(drive, timeout=float(sys.argv[2])), round(time.time()-t,1))
