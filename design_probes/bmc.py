# hand prototype of the transition-system BMC for SyncEngine.processing_loop, 2..3 threads, each sends 1 event
import z3, time, sys
T = int(sys.argv[1]); K = int(sys.argv[2])
# per-thread pcs: 0 put, 1 acquire, 2 looptest, 3 popleft, 4 trigger_begin, 5 trigger_end, 6 release, 7 done
s = z3.Solver()
def st(k):
    return dict(pc=[z3.Int(f"pc{k}_{t}") for t in range(T)], qlen=z3.Int(f"q{k}"), lock=z3.Bool(f"l{k}"),
                proc=z3.Int(f"proc{k}"), intr=[z3.Bool(f"in{k}_{t}") for t in range(T)])
S = [st(k) for k in range(K+1)]
s.add(*[S[0]['pc'][t] == 0 for t in range(T)], S[0]['qlen'] == 0, z3.Not(S[0]['lock']), S[0]['proc'] == 0,
      *[z3.Not(S[0]['intr'][t]) for t in range(T)])
sched = [z3.Int(f"s{k}") for k in range(K)]
for k in range(K):
    a, b = S[k], S[k+1]
    s.add(sched[k] >= 0, sched[k] < T)
    for t in range(T):
        me = sched[k] == t
        pc = a['pc'][t]
        same_others = z3.And(*[b['pc'][u] == a['pc'][u] for u in range(T) if u != t], *[b['intr'][u] == a['intr'][u] for u in range(T) if u != t])
        def step(npc, qlen=None, lock=None, proc=None, intr=None):
            return z3.And(b['pc'][t] == npc, b['qlen'] == (a['qlen'] if qlen is None else qlen),
                          b['lock'] == (a['lock'] if lock is None else lock), b['proc'] == (a['proc'] if proc is None else proc),
                          b['intr'][t] == (a['intr'][t] if intr is None else intr), same_others)
        tr = z3.If(pc == 0, step(1, qlen=a['qlen']+1),
             z3.If(pc == 1, z3.If(a['lock'], step(7), step(2, lock=True)),
             z3.If(pc == 2, z3.If(a['qlen'] > 0, step(3), step(6)),
             z3.If(pc == 3, step(4, qlen=a['qlen']-1),
             z3.If(pc == 4, step(5, intr=True),
             z3.If(pc == 5, step(2, proc=a['proc']+1, intr=False),
             z3.If(pc == 6, step(7, lock=False),
                   step(7))))))))
        s.add(z3.Implies(me, tr))
# violation: all done and (qlen>0 or proc != T)   or two threads in trigger at once
alldone = z3.And(*[S[K]['pc'][t] == 7 for t in range(T)])
stranded = z3.And(alldone, z3.Or(S[K]['qlen'] > 0, S[K]['proc'] != T))
overlap = z3.Or(*[z3.And(S[k]['intr'][t], S[k]['intr'][u]) for k in range(K+1) for t in range(T) for u in range(t+1, T)])
t0 = time.time()
s.push(); s.add(overlap); print("overlap:", s.check(), round(time.time()-t0,2)); s.pop()
t0 = time.time()
s.push(); s.add(stranded); r = s.check(); print("stranded:", r, round(time.time()-t0,2))
if str(r) == "sat":
    m = s.model(); print([m[x].as_long() for x in sched])
