import sys
from collections import deque
from crosshair.tracers import NoTracing
from crosshair.core import IgnoreAttempt, realize
from statemachine import StateMachine, State
from statemachine.exceptions import TransitionNotAllowed
import drv, sym

GROUPS = ["before", "exit", "on", "enter", "after"]
class Boom(Exception): pass

def make(ctxbox):
    def cb(group):
        def f(self, event, source, target, state):
            return ctxbox[0].on_cb(group, str(event), state.id)
        return f
    class R(StateMachine):
        a = State(initial=True); b = State(); c = State()
        go = a.to(b) | b.to(c) | c.to(a)
        hop = a.to(c) | c.to(b)
        before_transition = cb("before"); on_exit_state = cb("exit"); on_transition = cb("on")
        on_enter_state = cb("enter"); after_transition = cb("after")
    return R

TABLE = {("a","go"):"b", ("b","go"):"c", ("c","go"):"a", ("a","hop"):"c", ("c","hop"):"b"}
EVS = ["go", "hop"]

class Run:
    """shared decision source: decision for the k-th callback invocation overall (impl) / (oracle)"""
    def __init__(self, ctx, budget):
        self.ctx = ctx; self.dec = []; self.budget = budget
    def decision(self, k):
        while len(self.dec) <= k:
            if self.budget > 0:
                d = self.ctx.choose(4, "act")   # 0 none, 1 send go, 2 send hop, 3 raise
                if d: self.budget -= 1
            else: d = 0
            self.dec.append(d)
        return self.dec[k]

class Impl:
    def __init__(self, run): self.run = run; self.k = 0; self.log = []; self.sm = None
    def on_cb(self, group, event, state):
        k = self.k; self.k += 1
        self.log.append((group, event, state))
        d = self.run.decision(k)
        if d == 3: raise Boom(k)
        if d in (1, 2):
            r = self.sm.send(EVS[d-1])
            self.log.append(("nested_ret", r))
        return ("r", k) if group in ("before", "on") else None

def oracle(run, cur, ev):
    """RTC reference: returns (log, result or exception tag, final state)"""
    log = []; q = deque([ev]); k = 0; first = None; got_first = False
    while q:
        e = q.popleft()
        tgt = TABLE.get((cur, e))
        if tgt is None:
            return log, "TNA", cur
        res = []
        for g in GROUPS:
            view = cur if g in ("before", "exit", "on") else tgt
            if g == "enter": pass
            log.append((g, e, view if g in ("before","exit","on") else tgt))
            d = run.decision(k); kk = k; k += 1
            if d == 3:
                return log, "Boom", (cur if g in ("before","exit","on") else tgt)
            if d in (1, 2):
                q.append(EVS[d-1]); log.append(("nested_ret", None))
            if g in ("before", "on"): res.append(("r", kk))
            if g == "on": cur_after = tgt
        cur = tgt
        if not got_first:
            first = res if len(res) != 1 else res[0]; got_first = True
    return log, first, cur

def check() -> bool:
    ctx = sym.Ctx()
    run = Run(ctx, int(sys.argv[1]))
    box = [None]
    with NoTracing():
        R = make(box)
        impl = Impl(run); box[0] = impl
        impl.run = Run(ctx, 0)
        sm = R(); impl.sm = sm
        impl.run = run
        impl.log.clear(); impl.k = 0
    s0 = ctx.choose(3); e0 = ctx.choose(2)
    with NoTracing():
        sm.current_state_value = "abc"[s0]
    try:
        res = sm.send(EVS[e0])
    except TransitionNotAllowed: res = "TNA"
    except Boom: res = "Boom"
    elog, eres, ecur = oracle(run, "abc"[s0], EVS[e0])
    ok = (impl.log == elog) and (res == eres) and sm.current_state.id == ecur
    # follow-up: machine usable, no stale events
    if ok:
        impl.log.clear(); n0 = impl.k
        run2 = Run(ctx, 0); run2.dec = [0]*100; impl.run = run2; 
        try: sm.send("go"); r2 = "ok"
        except TransitionNotAllowed: r2 = "TNA"
        ok = (len([x for x in impl.log if x[0] != "nested_ret"]) == 5)
    if not ok:
        with NoTracing(): print("FAIL", ctx.drawn, impl.log, elog, res, eres)
    return ok

if __name__ == "__main__":
    import time
    t=time.time()
    r = drv.run(check, timeout=float(sys.argv[2]))
    print({k:(v if k not in('fail','exc') else v[:3]) for k,v in r.items()}, round(time.time()-t,1))
