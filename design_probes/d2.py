import warnings, asyncio
warnings.simplefilter("ignore")
from statemachine import StateMachine, State
class M(StateMachine):
    a = State(initial=True); b = State()
    go = a.to(b); back = b.to(a)
class Mod: 
    def __init__(self, s=None): self.state = s
# C11: resume with rtc=False
try:
    sm = M(Mod("b"), rtc=False); print("resume rtc=False ok", sm.current_state.id)
except Exception as e: print("C11 resume rtc=False exc:", type(e).__name__, e)
# activate twice
sm = M(); print("reactivate:", sm.activate_initial_state(), sm.current_state.id)
sm = M(rtc=False)
try: print("reactivate rtc False:", sm.activate_initial_state())
except Exception as e: print("C11 reactivate rtc=False exc:", type(e).__name__, e)
# start_value vs stored
sm = M(Mod("b"), start_value="a"); print("stored b + start_value a ->", sm.current_state.id)
# invalid start value
try: M(start_value="zz")
except Exception as e: print("invalid start_value:", type(e).__name__, e)
# external invalid write
sm = M()
try: sm.current_state_value = "zz"
except Exception as e: print("invalid write:", type(e).__name__, sm.model.state)
sm.model.state = "zz"
try: sm.current_state
except Exception as e: print("unmapped read:", type(e).__name__)
# async guards early exit pending
class A(StateMachine):
    a = State(initial=True); b = State(); c = State()
    go = a.to(b, cond=["g1", "g2"]) | a.to(c)
    back = b.to(a) | c.to(a)
    log = []
    async def g1(self): self.log.append("g1"); return False
    async def g2(self):
        self.log.append("g2-begin"); await asyncio.sleep(0); await asyncio.sleep(0); self.log.append("g2-end"); return True
    async def on_enter_c(self): self.log.append("enter-c")
sm = A(); sm.send("go"); print("C05 async guard overlap:", sm.log, sm.current_state.id)
import gc; gc.collect()
# allowed_events w/ dup events, and events order
class E(StateMachine):
    a = State(initial=True); b = State()
    x = a.to(b) | b.to(a)
    y = a.to(a)
    z = a.to(b, event="x y")
sm = E(); print("allowed:", [str(e) for e in sm.allowed_events], "events:", [str(e) for e in sm.events])
# inheritance sharing
class Base(StateMachine):
    a = State(initial=True); b = State()
    go = a.to(b); back = b.to(a)
class Sub(Base):
    extra = Base.a.to(Base.b)
print("C16 base transitions after subclass:", [t.event for t in Base.a.transitions], [str(e) for e in Base().allowed_events] if True else None)
